//! C09 — DogStatsD payloads are valid, within the size limit, and account for every point.
//!
//! Drives one long-lived real `PayloadWriter` per case through the `metrics_exporter_dogstatsd::verif`
//! driver module: a history of `write_counter` / `write_gauge` / `write_histogram` / `write_distribution`
//! calls and drains (`payloads()` as in `Forwarder::run`).  Every op goes to the Lean model too
//! (`statsd …` ops; number texts are shipped as opaque hex strings) and the answers (counts, emitted
//! payload bytes) are compared byte-for-byte.
//!
//! Implementation-side oracles (independent of the model):
//!   * a panic inside a write is "serialisation panicked" (the writer is then discarded);
//!   * every drained payload body is at most `max` bytes;
//!   * length-prefixed mode: the concatenated stream re-parses as `(le32 n, n bytes)*` and the frame
//!     boundaries are the slice boundaries;
//!   * each body is one DogStatsD datagram by the strict reader below (written from the datagram format
//!     description), with the (prefixed) name, type, sample rate, timestamp and tags (global, then own) of
//!     the call that produced it;
//!   * the payloads a call reports as written carry, concatenated, the call's values in order minus the
//!     dropped ones, each parsing back (`str::parse`) to the same bits; `written`/`dropped` add up.

use crate::util::*;
use metrics::{Key, Label};
use metrics_exporter_dogstatsd::verif::{StateDriver, Writer};
use std::panic::{catch_unwind, AssertUnwindSafe};

// ---------------------------------------------------------------------------------------------
// strict DogStatsD datagram reader (oracle)

#[derive(Debug, Clone, PartialEq)]
pub struct Datagram {
    pub name: String,
    pub values: Vec<String>,
    pub ty: String,
    pub rate: Option<String>,
    pub tags: Option<Vec<String>>,
    pub ts: Option<String>,
}

/// `<name>:<v1>[:<v2>…]|<type>[|@<rate>][|#<tag>[,<tag>…]][|T<unix seconds>]\n`
pub fn parse_datagram(p: &[u8]) -> Result<Datagram, String> {
    let s = std::str::from_utf8(p).map_err(|_| "not UTF-8".to_string())?;
    let body = s.strip_suffix('\n').ok_or("no terminating newline")?;
    if body.contains('\n') {
        return Err("more than one line".into());
    }
    let mut sections = body.split('|');
    let head = sections.next().unwrap();
    let mut hv = head.split(':');
    let name = hv.next().unwrap();
    if name.is_empty() {
        return Err("empty metric name".into());
    }
    let values: Vec<String> = hv.map(|v| v.to_string()).collect();
    if values.is_empty() {
        return Err("no value".into());
    }
    for v in &values {
        if v.is_empty() {
            return Err("empty value".into());
        }
        if v.parse::<f64>().is_err() {
            return Err(format!("value {:?} is not a number", v));
        }
    }
    let ty = sections.next().ok_or("no type section")?;
    if !matches!(ty, "c" | "g" | "h" | "d" | "ms" | "s") {
        return Err(format!("unknown type {:?}", ty));
    }
    let (mut rate, mut tags, mut ts) = (None, None, None);
    // optional sections in the documented order; each at most once
    let mut stage = 0;
    for sec in sections {
        if let Some(r) = sec.strip_prefix('@') {
            if stage > 0 {
                return Err("sample rate out of order / repeated".into());
            }
            stage = 1;
            if r.is_empty() || r.parse::<f64>().is_err() {
                return Err(format!("bad sample rate {:?}", r));
            }
            rate = Some(r.to_string());
        } else if let Some(t) = sec.strip_prefix('#') {
            if stage > 1 {
                return Err("tags out of order / repeated".into());
            }
            stage = 2;
            let list: Vec<String> = t.split(',').map(|x| x.to_string()).collect();
            if list.iter().any(|x| x.is_empty()) {
                return Err("empty tag".into());
            }
            tags = Some(list);
        } else if let Some(t) = sec.strip_prefix('T') {
            if stage > 2 {
                return Err("timestamp repeated".into());
            }
            stage = 3;
            if t.is_empty() || !t.bytes().all(|b| b.is_ascii_digit()) {
                return Err(format!("bad timestamp {:?}", t));
            }
            ts = Some(t.to_string());
        } else {
            return Err(format!("unknown section {:?}", sec));
        }
    }
    Ok(Datagram { name: name.to_string(), values, ty: ty.to_string(), rate, tags, ts })
}

// ---------------------------------------------------------------------------------------------
// inputs

#[derive(Clone, Debug)]
enum Vals {
    U(u64),
    F(Vec<f64>),
}

#[derive(Clone, Debug)]
struct Call {
    kind: u8, // b'c' | b'g' | b'h' | b'd'
    name: String,
    labels: Vec<(String, String)>,
    vals: Vals,
    ts: Option<u64>,
    rate: Option<f64>,
    prefix: Option<String>,
    globals: Vec<(String, String)>,
}

#[derive(Clone, Debug)]
enum Op {
    Write(Call),
    Drain,
}

#[derive(Clone, Debug)]
struct Case {
    max: usize,
    lp: bool,
    ops: Vec<Op>,
}

fn ryu_text(v: f64) -> String {
    ryu::Buffer::new().format(v).to_string()
}

fn delim_free(s: &str, allow_colon: bool) -> bool {
    !s.bytes().any(|b| b == b'|' || b == b',' || b == b'\n' || (b == b':' && !allow_colon))
}

impl Call {
    /// can this call be represented as a DogStatsD datagram at all (no escaping exists)?
    fn representable(&self) -> bool {
        let full_name_nonempty = self.prefix.is_some() || !self.name.is_empty();
        full_name_nonempty
            && delim_free(&self.name, false)
            && self.prefix.as_deref().map_or(true, |p| delim_free(p, false))
            && self.globals.iter().chain(self.labels.iter()).all(|(k, v)| !k.is_empty() && delim_free(k, false) && delim_free(v, true))
    }
    fn full_name(&self) -> String {
        match &self.prefix {
            Some(p) => format!("{}.{}", p, self.name),
            None => self.name.clone(),
        }
    }
    fn tag_texts(&self) -> Vec<String> {
        self.globals
            .iter()
            .chain(self.labels.iter())
            .map(|(k, v)| if v.is_empty() { k.clone() } else { format!("{}:{}", k, v) })
            .collect()
    }
    fn n_points(&self) -> usize {
        match &self.vals {
            Vals::U(_) => 1,
            Vals::F(v) => {
                if self.kind == b'g' {
                    1
                } else {
                    v.len()
                }
            }
        }
    }
    fn op_line(&self) -> String {
        let k = self.kind as char;
        match self.kind {
            b'c' | b'g' => {
                let vt = match &self.vals {
                    Vals::U(u) => u.to_string(),
                    Vals::F(f) => ryu_text(f[0]),
                };
                format!(
                    "statsd {} {} {} {} {} {} {}",
                    k,
                    hexs(&self.name),
                    pairs(&self.labels),
                    hexs(&vt),
                    match self.ts {
                        Some(t) => hexs(&t.to_string()),
                        None => "~".into(),
                    },
                    opt_hexs(self.prefix.as_deref()),
                    pairs(&self.globals)
                )
            }
            _ => {
                let vs = match &self.vals {
                    Vals::F(f) => f,
                    _ => unreachable!(),
                };
                format!(
                    "statsd {} {} {} {} {} {} {}",
                    k,
                    hexs(&self.name),
                    pairs(&self.labels),
                    list(vs.iter().map(|v| hexs(&ryu_text(*v)))),
                    match self.rate {
                        Some(r) => hexs(&ryu_text(r)),
                        None => "~".into(),
                    },
                    opt_hexs(self.prefix.as_deref()),
                    pairs(&self.globals)
                )
            }
        }
    }
}

fn same_f64(text: &str, v: f64) -> bool {
    match text.parse::<f64>() {
        Ok(p) => p.to_bits() == v.to_bits() || (p.is_nan() && v.is_nan()),
        Err(_) => false,
    }
}

// ---------------------------------------------------------------------------------------------
// running one case on the real writer

struct Pending {
    call: Call,
    written: u64,
    dropped: u64,
}

fn run_case(out: &mut Out, case: &Case) {
    out.op(&format!("statsd new {} {}", case.max, case.lp as u8), "ok");
    let mut writer = Writer::new(case.max, case.lp);
    let mut pending: Vec<Pending> = vec![];
    let mut drains = 0;
    let mut nontrivial = false;
    for op in &case.ops {
        match op {
            Op::Write(call) => {
                let key = Key::from_parts(
                    call.name.clone(),
                    call.labels.iter().map(|(k, v)| Label::new(k.clone(), v.clone())).collect::<Vec<_>>(),
                );
                let globals: Vec<Label> = call.globals.iter().map(|(k, v)| Label::new(k.clone(), v.clone())).collect();
                let prefix = call.prefix.as_deref();
                let res = catch_unwind(AssertUnwindSafe(|| match (call.kind, &call.vals) {
                    (b'c', Vals::U(u)) => writer.write_counter(&key, *u, call.ts, prefix, &globals),
                    (b'g', Vals::F(f)) => writer.write_gauge(&key, f[0], call.ts, prefix, &globals),
                    (b'h', Vals::F(f)) => writer.write_histogram(&key, f, call.rate, prefix, &globals),
                    (b'd', Vals::F(f)) => writer.write_distribution(&key, f, call.rate, prefix, &globals),
                    _ => unreachable!(),
                }));
                out.count(&format!("op.{}", call.kind as char));
                match res {
                    Ok(r) => {
                        out.op(&call.op_line(), &format!("w={} d={}", r.payloads_written, r.points_dropped));
                        if r.points_dropped > 0 {
                            out.count("write.some_dropped");
                            nontrivial = true;
                        }
                        if r.payloads_written > 1 {
                            out.count("write.multi_payload");
                            nontrivial = true;
                        }
                        if r.payloads_written == 0 && r.points_dropped as usize == call.n_points() && call.n_points() > 0 {
                            out.count("write.rejected_whole");
                        }
                        pending.push(Pending { call: call.clone(), written: r.payloads_written, dropped: r.points_dropped });
                    }
                    Err(e) => {
                        let msg = e
                            .downcast_ref::<String>()
                            .cloned()
                            .or_else(|| e.downcast_ref::<&str>().map(|s| s.to_string()))
                            .unwrap_or_default();
                        out.op(&call.op_line(), "panic");
                        out.count("write.panic");
                        out.oracle_fail("serialisation panicked", &format!("{} :: max={} lp={} :: {}", msg, case.max, case.lp, call.op_line()));
                        out.nontrivial();
                        return; // writer discarded
                    }
                }
            }
            Op::Drain => {
                drains += 1;
                let payloads = writer.drain();
                out.op("statsd drain", &list(payloads.iter().map(|p| hex(p))));
                out.count_n("drain.payloads", payloads.len() as u64);
                check_drain(out, case, &payloads, &pending);
                pending.clear();
            }
        }
    }
    if drains >= 2 {
        out.count("case.multi_flush");
        nontrivial = true;
    }
    if nontrivial {
        out.nontrivial();
    }
}

fn check_drain(out: &mut Out, case: &Case, slices: &[Vec<u8>], pending: &[Pending]) {
    let ctx = |i: usize| format!("max={} lp={} payload#{}", case.max, case.lp, i);
    // framing
    let mut bodies: Vec<&[u8]> = vec![];
    if case.lp {
        let stream: Vec<u8> = slices.iter().flat_map(|s| s.iter().copied()).collect();
        let mut pos = 0usize;
        let mut boundaries = vec![];
        let mut ok = true;
        while pos < stream.len() {
            if pos + 4 > stream.len() {
                ok = false;
                break;
            }
            let n = u32::from_le_bytes([stream[pos], stream[pos + 1], stream[pos + 2], stream[pos + 3]]) as usize;
            if pos + 4 + n > stream.len() {
                ok = false;
                break;
            }
            pos += 4 + n;
            boundaries.push(pos);
        }
        let mut acc = 0;
        let slice_bounds: Vec<usize> = slices
            .iter()
            .map(|s| {
                acc += s.len();
                acc
            })
            .collect();
        if !ok || boundaries != slice_bounds {
            out.oracle_fail(
                "length-prefixed stream is mis-framed",
                &format!("max={} lp=true stream={} slice_ends={:?} frame_ends={:?}", case.max, hex(&stream), slice_bounds, boundaries),
            );
            return;
        }
        for s in slices {
            bodies.push(&s[4..]);
        }
    } else {
        for s in slices {
            bodies.push(&s[..]);
        }
    }
    // size limit
    for (i, b) in bodies.iter().enumerate() {
        if b.len() > case.max {
            out.oracle_fail("payload longer than the configured maximum", &format!("{} len={} {}", ctx(i), b.len(), hex(b)));
        }
    }
    // counts
    let total_written: u64 = pending.iter().map(|p| p.written).sum();
    if total_written as usize != bodies.len() {
        out.oracle_fail(
            "reported payloads_written differs from the number of emitted payloads",
            &format!("max={} lp={} reported={} emitted={}", case.max, case.lp, total_written, bodies.len()),
        );
        return;
    }
    // per call: content and accounting
    let mut next = 0usize;
    for p in pending {
        let mine = &bodies[next..next + p.written as usize];
        next += p.written as usize;
        let call = &p.call;
        let npoints = call.n_points();
        if !call.representable() {
            out.count("call.unrepresentable");
            // only the point count can be checked: number of ':'-separated values before the first '|' is not
            // well-defined either; skip content checks
            continue;
        }
        let mut got_values: Vec<String> = vec![];
        let mut bad = false;
        for (j, b) in mine.iter().enumerate() {
            match parse_datagram(b) {
                Err(e) => {
                    out.oracle_fail("emitted payload is not a DogStatsD datagram", &format!("{} :: {} :: {}", e, ctx(next - mine.len() + j), hex(b)));
                    bad = true;
                }
                Ok(d) => {
                    let exp_tags = call.tag_texts();
                    let exp_tags = if exp_tags.is_empty() { None } else { Some(exp_tags) };
                    let exp_rate = call.rate;
                    let rate_ok = match (&d.rate, exp_rate) {
                        (None, None) => true,
                        (Some(t), Some(r)) => same_f64(t, r),
                        _ => false,
                    };
                    let ts_ok = match (&d.ts, call.ts) {
                        (None, None) => true,
                        (Some(t), Some(v)) => t.parse::<u64>() == Ok(v),
                        _ => false,
                    };
                    if d.name != call.full_name() || d.ty.as_bytes() != [call.kind] || d.tags != exp_tags || !rate_ok || !ts_ok {
                        out.oracle_fail(
                            "datagram does not carry the call's name/type/rate/tags/timestamp",
                            &format!("{:?} :: expected name={:?} type={} tags={:?} rate={:?} ts={:?} :: {}", d, call.full_name(), call.kind as char, exp_tags, exp_rate, call.ts, ctx(next - mine.len() + j)),
                        );
                        bad = true;
                    }
                    got_values.extend(d.values);
                }
            }
        }
        if bad {
            continue;
        }
        // accounting: got_values is the input minus the dropped points, in order
        if got_values.len() as u64 + p.dropped != npoints as u64 {
            out.oracle_fail(
                "points emitted + points dropped differs from the number of input points",
                &format!("max={} lp={} emitted={} dropped={} input={} :: {}", case.max, case.lp, got_values.len(), p.dropped, npoints, call.op_line().chars().take(300).collect::<String>()),
            );
            continue;
        }
        match &call.vals {
            Vals::U(u) => {
                if got_values.len() == 1 && got_values[0].parse::<u64>() != Ok(*u) {
                    out.oracle_fail("counter value does not read back", &format!("{:?} vs {}", got_values, u));
                }
            }
            Vals::F(fs) => {
                // subsequence match, bit for bit
                let mut i = 0usize;
                let mut okv = true;
                for t in &got_values {
                    while i < fs.len() && !same_f64(t, fs[i]) {
                        i += 1;
                    }
                    if i == fs.len() {
                        okv = false;
                        break;
                    }
                    i += 1;
                }
                if call.kind == b'g' && got_values.len() == 1 && !same_f64(&got_values[0], fs[0]) {
                    okv = false;
                }
                if !okv {
                    out.oracle_fail(
                        "emitted values are not the input values in order at round-trip precision",
                        &format!("max={} lp={} got={:?} :: {}", case.max, case.lp, &got_values[..got_values.len().min(20)], call.op_line().chars().take(300).collect::<String>()),
                    );
                }
            }
        }
    }
}

// ---------------------------------------------------------------------------------------------
// generators

const NAMES: &[&str] = &["requests", "a", "lat", "http.server.duration", "x_1", "Ω", "queue-depth", "n9"];
const PREFIXES: &[&str] = &["myservice", "p", "svc.eu", "datadog.dogstatsd.client", ""];
const TKEYS: &[&str] = &["env", "region", "k", "host", "é", "svc"];
const TVALS: &[&str] = &["", "prod", "eu-west-1", "v", "a:b", "1", "x y"];
const HOSTILE: &[&str] = &["a|b", "a,b", "a:b", "a\nb", "#", "|#", "@0.5", "|T1", "", ":", "x|c\ny:1|c"];

fn special_f64(r: &mut Rng) -> f64 {
    match r.below(22) {
        0 => 0.0,
        1 => -0.0,
        2 => 1.0,
        3 => 42.0,
        4 => 0.1,
        5 => 1e-7,
        6 => f64::from_bits(1),            // smallest subnormal
        7 => f64::MIN_POSITIVE,
        8 => f64::MAX,
        9 => f64::MIN,
        10 => f64::NAN,
        11 => f64::INFINITY,
        12 => f64::NEG_INFINITY,
        13 => 1e21,
        14 => 1e300,
        15 => 123456789.12345679,
        16 => f64::EPSILON,
        17 => -1.5,
        18 => (r.below(2000) as f64) / 8.0,
        19 => r.below(100) as f64,
        _ => {
            let v = f64::from_bits(r.next());
            v
        }
    }
}

fn sized_string(r: &mut Rng, len: usize) -> String {
    let alphabet = b"abcdefghijklmnopqrstuvwxyz0123456789_.-";
    (0..len).map(|_| alphabet[r.below(alphabet.len())] as char).collect()
}

/// `overhead` = bytes of the message besides the name (prefix, shortest value, type, tags, …), so that names
/// "aimed at the limit" make the whole message land within a few bytes of `max`, on either side.
fn gen_name(r: &mut Rng, max: usize, overhead: usize) -> String {
    match r.weighted(&[1, 8, 4, 1, 1]) {
        0 => String::new(),
        1 => r.pick_str(NAMES).to_string(),
        2 => {
            let target = max.saturating_sub(overhead).min(420);
            let lo = target.saturating_sub(12);
            let n = r.range(lo, target + 4);
            sized_string(r, n)
        }
        3 => {
            let n = r.range(0, 40);
            sized_string(r, n)
        }
        _ => r.pick_str(HOSTILE).to_string(),
    }
}

fn gen_labels(r: &mut Rng, n_max: usize, hostile: bool) -> Vec<(String, String)> {
    (0..r.below(n_max + 1))
        .map(|_| {
            if hostile && r.chance(1, 3) {
                (r.pick_str(HOSTILE).to_string(), r.pick_str(HOSTILE).to_string())
            } else if r.chance(1, 12) {
                { let (a, b) = (r.range(1, 30), r.range(0, 30)); (sized_string(r, a), sized_string(r, b)) }
            } else {
                (r.pick_str(TKEYS).to_string(), r.pick_str(TVALS).to_string())
            }
        })
        .collect()
}

fn gen_case(r: &mut Rng, thorough: bool) -> Case {
    let max = match r.weighted(&[1, 4, 7, 4, 2, 2]) {
        0 => r.below(6),
        1 => r.range(6, 40),
        2 => r.range(20, 120),
        3 => r.range(100, 400),
        4 => 1432,
        _ => 8192,
    };
    let lp = r.chance(1, 2);
    let hostile_case = r.chance(1, 10);
    // per-case configuration (global prefix / labels are fixed per exporter, but the writer takes them per call;
    // mostly constant per case, sometimes varied)
    let prefix: Option<String> = if r.chance(1, 2) { Some(r.pick_str(PREFIXES).to_string()) } else { None };
    let globals = gen_labels(r, 3, hostile_case);
    let n_ops = r.range(2, if thorough { 14 } else { 10 });
    let mut ops = vec![];
    for _ in 0..n_ops {
        if r.chance(1, 4) {
            ops.push(Op::Drain);
            continue;
        }
        let labels = gen_labels(r, 3, hostile_case);
        let (p, g) = if r.chance(1, 8) {
            (if r.chance(1, 2) { Some(r.pick_str(PREFIXES).to_string()) } else { None }, gen_labels(r, 2, hostile_case))
        } else {
            (prefix.clone(), globals.clone())
        };
        let overhead = p.as_ref().map_or(0, |p| p.len() + 1)
            + 5
            + g.iter().chain(labels.iter()).map(|(k, v)| k.len() + v.len() + 2).sum::<usize>()
            + r.below(12);
        let name = if hostile_case { r.pick_str(HOSTILE).to_string() } else { gen_name(r, max, overhead) };
        let ts = match r.below(4) {
            0 => Some(r.pick(&[0u64, 1, 1_700_000_000, u64::MAX]).clone()),
            _ => None,
        };
        let kind = *r.pick(&[b'c', b'g', b'h', b'h', b'd']);
        let call = match kind {
            b'c' => Call {
                kind,
                name,
                labels,
                vals: Vals::U(*r.pick(&[0u64, 1, 2, 91919, u64::MAX, 1 << 53, 10_000_000_000])),
                ts,
                rate: None,
                prefix: p,
                globals: g,
            },
            b'g' => Call { kind, name, labels, vals: Vals::F(vec![special_f64(r)]), ts, rate: None, prefix: p, globals: g },
            _ => {
                let n = match r.weighted(&[4, 32, 20, 6, 1]) {
                    0 => 0,
                    1 => r.range(1, 8),
                    2 => r.range(8, 80),
                    3 => r.range(80, 600),
                    _ => r.range(600, 3000),
                };
                let vals: Vec<f64> = (0..n).map(|_| special_f64(r)).collect();
                let rate = match r.below(4) {
                    0 => Some(*r.pick(&[1.0, 0.5, 0.25, 0.001, 1e-7, 0.3333333333333333, f64::NAN, 0.0])),
                    _ => None,
                };
                Call { kind, name, labels, vals: Vals::F(vals), ts: None, rate, prefix: p, globals: g }
            }
        };
        ops.push(Op::Write(call));
    }
    ops.push(Op::Drain);
    Case { max, lp, ops }
}

fn kv(a: &str, b: &str) -> (String, String) {
    (a.to_string(), b.to_string())
}

fn simple(kind: u8, name: &str, vals: Vals, prefix: Option<&str>) -> Call {
    Call { kind, name: name.to_string(), labels: vec![], vals, ts: None, rate: None, prefix: prefix.map(|s| s.to_string()), globals: vec![] }
}

fn corpus() -> Vec<(&'static str, Case)> {
    let mut v = vec![];
    // (a) prefixed histogram near the limit: minimum-length computation must include the prefix
    v.push((
        "finding-a prefixed histogram near the limit",
        Case {
            max: 40,
            lp: false,
            ops: vec![
                Op::Write(simple(b'h', "latency", Vals::F((0..20).map(|i| i as f64 + 0.5).collect()), Some("myservice"))),
                Op::Drain,
            ],
        },
    ));
    // (b) length-prefixed: rejected metric, then a good one on the same writer
    v.push((
        "finding-b rejected write then successful write, length-prefixed",
        Case {
            max: 20,
            lp: true,
            ops: vec![
                Op::Write(simple(b'c', "a_counter_name_that_is_far_too_long", Vals::U(1), None)),
                Op::Write(simple(b'c', "ok", Vals::U(2), None)),
                Op::Drain,
            ],
        },
    ));
    // (b') rejected metric, then a histogram that writes nothing: current_len underflow
    v.push((
        "finding-b rejected write then empty histogram, length-prefixed",
        Case {
            max: 20,
            lp: true,
            ops: vec![
                Op::Write(simple(b'c', "a_counter_name_that_is_far_too_long", Vals::U(1), None)),
                Op::Write(simple(b'h', "h", Vals::F(vec![]), None)),
                Op::Write(simple(b'c', "ok", Vals::U(2), None)),
                Op::Drain,
            ],
        },
    ));
    // (c) length-prefixed: second flush cycle of a long-lived writer
    v.push((
        "finding-c second flush cycle, length-prefixed",
        Case {
            max: 8192,
            lp: true,
            ops: vec![
                Op::Write(simple(b'c', "requests", Vals::U(1), None)),
                Op::Drain,
                Op::Write(simple(b'c', "requests", Vals::U(2), None)),
                Op::Write(simple(b'g', "depth", Vals::F(vec![3.5]), None)),
                Op::Drain,
                Op::Drain,
                Op::Write(simple(b'c', "requests", Vals::U(3), None)),
                Op::Drain,
            ],
        },
    ));
    // tiny limits
    for max in [0usize, 1, 4, 5, 6] {
        for lp in [false, true] {
            v.push((
                "tiny limit",
                Case {
                    max,
                    lp,
                    ops: vec![
                        Op::Write(simple(b'c', "a", Vals::U(0), None)),
                        Op::Write(simple(b'g', "a", Vals::F(vec![1.0]), None)),
                        Op::Write(simple(b'h', "a", Vals::F(vec![1.0, 2.0]), None)),
                        Op::Write(simple(b'c', "", Vals::U(0), None)),
                        Op::Drain,
                        Op::Write(simple(b'h', "", Vals::F(vec![0.0, 1e300]), Some(""))),
                        Op::Drain,
                    ],
                },
            ));
        }
    }
    // number extremes, all kinds, tags and timestamps
    let extremes =
        vec![0.0, -0.0, f64::NAN, f64::INFINITY, f64::NEG_INFINITY, f64::from_bits(1), f64::MIN_POSITIVE, f64::MAX, f64::MIN, 1e21, 1e-7, 0.1];
    let mut ops = vec![];
    for lpfx in [None, Some("svc")] {
        ops.push(Op::Write(Call {
            kind: b'c',
            name: "reqs".into(),
            labels: vec![kv("env", "prod"), kv("bare", "")],
            vals: Vals::U(u64::MAX),
            ts: Some(u64::MAX),
            rate: None,
            prefix: lpfx.map(|s: &str| s.to_string()),
            globals: vec![kv("g", "1")],
        }));
        for x in &extremes {
            ops.push(Op::Write(Call {
                kind: b'g',
                name: "g".into(),
                labels: vec![kv("k", "a:b")],
                vals: Vals::F(vec![*x]),
                ts: Some(0),
                rate: None,
                prefix: lpfx.map(|s: &str| s.to_string()),
                globals: vec![],
            }));
        }
        ops.push(Op::Write(Call {
            kind: b'd',
            name: "dist".into(),
            labels: vec![],
            vals: Vals::F(extremes.clone()),
            ts: None,
            rate: Some(0.001),
            prefix: lpfx.map(|s: &str| s.to_string()),
            globals: vec![kv("g", "1"), kv("h", "")],
        }));
        ops.push(Op::Drain);
    }
    v.push(("number extremes", Case { max: 64, lp: true, ops: ops.clone() }));
    v.push(("number extremes", Case { max: 1432, lp: false, ops }));
    // a value that fits alone only just / not at all, chunking exactly at the limit
    for max in 18..=26usize {
        v.push((
            "chunking at the limit",
            Case {
                max,
                lp: max % 2 == 0,
                ops: vec![
                    Op::Write(Call {
                        kind: b'h',
                        name: "lat".into(),
                        labels: vec![kv("e", "p")],
                        vals: Vals::F(vec![1.0, 22.5, 1e300, 3.25, 123456.789, 4.0, 5.0, 0.1]),
                        ts: None,
                        rate: Some(0.5),
                        prefix: Some("p".into()),
                        globals: vec![],
                    }),
                    Op::Drain,
                ],
            },
        ));
    }
    v
}

pub fn run(cfg: &Cfg, out: &mut Out) {
    let prev = std::panic::take_hook();
    std::panic::set_hook(Box::new(|_| {}));
    for (tag, case) in corpus() {
        out.case(&format!("corpus {}", tag));
        run_case(out, &case);
    }
    let root = Rng::new(cfg.seed ^ 0xC09);
    for i in 0..cfg.cases {
        let mut r = root.fork(i as u64);
        out.case(&format!("seed={} i={}", cfg.seed, i));
        let case = gen_case(&mut r, cfg.thorough);
        out.count(&format!(
            "max.{}",
            match case.max {
                0..=5 => "0-5",
                6..=40 => "6-40",
                41..=400 => "41-400",
                _ => "default",
            }
        ));
        out.count(if case.lp { "framing.length_prefixed" } else { "framing.plain" });
        run_case(out, &case);
    }
    // stream B: the same writer as `State::flush` drives it (oracle only; the aggregation itself is C10)
    let root_b = Rng::new(cfg.seed ^ 0xC09B);
    for i in 0..cfg.cases / 4 {
        let mut r = root_b.fork(i as u64);
        out.case(&format!("state-flush seed={} i={}", cfg.seed, i));
        run_state_case(out, &mut r);
    }
    std::panic::set_hook(prev);
}

/// `State::flush` into a long-lived writer over several flush cycles; every drained payload must be a datagram
/// within the limit and correctly framed, every recorded histogram value must come out exactly once or be
/// accounted as dropped, counters/gauges must carry the recorded value and the configured prefix / global tags.
fn run_state_case(out: &mut Out, r: &mut Rng) {
    use metrics::{Key as MKey, Level, Metadata, Recorder};
    use std::collections::BTreeMap;
    static META: Metadata<'static> = Metadata::new("c09", Level::INFO, None);
    let max = *r.pick(&[24usize, 40, 64, 100, 200, 1432, 8192]);
    let lp = r.chance(1, 2);
    let prefix = if r.chance(1, 2) { Some(r.pick_str(&["myservice", "p", "svc.eu"]).to_string()) } else { None };
    let globals: Vec<(String, String)> = (0..r.below(3)).map(|i| (format!("g{}", i), r.pick_str(&["", "x", "eu-west-1"]).to_string())).collect();
    let as_dist = r.chance(1, 2);
    let mut driver = StateDriver::new(
        r.chance(1, 2),
        false,
        1024,
        as_dist,
        globals.iter().map(|(k, v)| Label::new(k.clone(), v.clone())).collect(),
        prefix.clone(),
    );
    let recorder = driver.recorder();
    let mut writer = Writer::new(max, lp);
    let names = ["reqs", "lat", "datadog.dogstatsd.client.x", "q"];
    out.count(&format!("state.max={}", max));
    for _cycle in 0..r.range(1, 3) {
        // record
        let mut expect_hist: BTreeMap<String, Vec<u64>> = BTreeMap::new(); // full name -> value bits
        let mut n_hist_points = 0u64;
        for _ in 0..r.range(1, 6) {
            let name = *r.pick(&names);
            let key = MKey::from_parts(name, vec![Label::new("k", *r.pick(&["a", "b"]))]);
            match r.below(3) {
                0 => recorder.register_counter(&key, &META).increment(r.below(1000) as u64),
                1 => recorder.register_gauge(&key, &META).set(special_f64(r)),
                _ => {
                    let h = recorder.register_histogram(&key, &META);
                    let full = if name.starts_with("datadog.dogstatsd.client") || prefix.is_none() {
                        name.to_string()
                    } else {
                        format!("{}.{}", prefix.as_ref().unwrap(), name)
                    };
                    for _ in 0..r.range(1, 200) {
                        let v = special_f64(r);
                        let v = if v.is_nan() { 0.5 } else { v };
                        h.record(v);
                        expect_hist.entry(full.clone()).or_default().push(v.to_bits());
                        n_hist_points += 1;
                    }
                }
            }
        }
        let res = catch_unwind(AssertUnwindSafe(|| driver.flush(&mut writer)));
        let counts = match res {
            Ok(c) => c,
            Err(_) => {
                out.oracle_fail("serialisation panicked", &format!("State::flush max={} lp={} prefix={:?}", max, lp, prefix));
                return;
            }
        };
        let slices = writer.drain();
        out.count_n("state.payloads", slices.len() as u64);
        let mut got_hist: BTreeMap<String, Vec<u64>> = BTreeMap::new();
        let mut stream_ok = true;
        for s in &slices {
            let body: &[u8] = if lp {
                if s.len() < 4 || u32::from_le_bytes([s[0], s[1], s[2], s[3]]) as usize != s.len() - 4 {
                    out.oracle_fail("length-prefixed stream is mis-framed", &format!("State::flush max={} slice={}", max, hex(s)));
                    stream_ok = false;
                    break;
                }
                &s[4..]
            } else {
                &s[..]
            };
            if body.len() > max {
                out.oracle_fail("payload longer than the configured maximum", &format!("State::flush max={} len={}", max, body.len()));
            }
            match parse_datagram(body) {
                Err(e) => {
                    out.oracle_fail("emitted payload is not a DogStatsD datagram", &format!("State::flush {} :: {}", e, hex(body)));
                    stream_ok = false;
                }
                Ok(d) => {
                    let exp_prefixed = !d.name.contains("datadog.dogstatsd.client") && prefix.is_some();
                    let has_prefix = prefix.as_ref().map_or(false, |p| d.name.starts_with(&format!("{}.", p)));
                    let tags = d.tags.clone().unwrap_or_default();
                    let exp_global: Vec<String> = globals.iter().map(|(k, v)| if v.is_empty() { k.clone() } else { format!("{}:{}", k, v) }).collect();
                    if exp_prefixed != has_prefix || tags.len() != exp_global.len() + 1 || tags[..exp_global.len()] != exp_global[..] {
                        out.oracle_fail("datagram does not carry the call's name/type/rate/tags/timestamp", &format!("State::flush {:?} prefix={:?} globals={:?}", d, prefix, globals));
                    }
                    if d.ty == "h" || d.ty == "d" {
                        if (d.ty == "d") != as_dist {
                            out.oracle_fail("datagram does not carry the call's name/type/rate/tags/timestamp", &format!("State::flush histogram type {:?}", d));
                        }
                        for v in &d.values {
                            got_hist.entry(d.name.clone()).or_default().push(v.parse::<f64>().unwrap().to_bits());
                        }
                    }
                }
            }
        }
        if !stream_ok {
            return;
        }
        // every recorded histogram value is emitted exactly once or accounted as dropped
        let mut emitted = 0u64;
        let mut sub_ok = true;
        for (name, got) in got_hist.iter_mut() {
            emitted += got.len() as u64;
            let mut exp = expect_hist.get(name).cloned().unwrap_or_default();
            exp.sort();
            got.sort();
            // got must be a sub-multiset of exp
            let mut i = 0;
            for g in got.iter() {
                while i < exp.len() && exp[i] < *g {
                    i += 1;
                }
                if i == exp.len() || exp[i] != *g {
                    sub_ok = false;
                    break;
                }
                i += 1;
            }
        }
        if !sub_ok {
            out.oracle_fail("emitted values are not the input values in order at round-trip precision", &format!("State::flush max={} lp={}: a histogram value was emitted that was not recorded (or twice)", max, lp));
        }
        if emitted != counts.histogram_points || emitted > n_hist_points || (emitted < n_hist_points && counts.packets_dropped_serializer == 0) {
            out.oracle_fail(
                "points emitted + points dropped differs from the number of input points",
                &format!("State::flush max={} lp={} recorded={} emitted={} reported histogram_points={} serializer failures={}", max, lp, n_hist_points, emitted, counts.histogram_points, counts.packets_dropped_serializer),
            );
        }
        out.nontrivial();
    }
}
