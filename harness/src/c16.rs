//! C16 — the sampling reservoir reports true counts and favours no stream position.
//!
//! Drives the real `metrics_util::storage::reservoir::AtomicSamplingReservoir`.
//!
//! * stream A (correspondence + sequential oracles): the `fastrand` override hook scripts every random choice
//!   (raw number `c`, choice `c % upper`) and records the `upper` the code asked for; the same ops go to the Lean
//!   model (`reservoir …`).  Oracles on what the real code returned: drained ⊆ pushed since the last drain,
//!   length = min(n, cap), all in order when n ≤ cap, sample rate = yielded / pushed, empty afterwards, no panic.
//! * stream B (exact enumeration on the real code): for small (cap, n) every vector of random choices the code
//!   can draw is scripted once; per-position retention counts must satisfy count·n = cap·total exactly.  The
//!   table is also compared with the model's `vectors`/`retained` (the definitions of theorem `uniform`).
//! * stream C (statistics, real generator, failing-input search only): per-position retention frequency over
//!   many cycles against cap/n with a Hoeffding bound (false alarm < 1e-11 per position).
//! * stream D (known finding K-C16-straddle): two deterministic two-thread schedules through the yield points.
use crate::util::*;
use metrics_util::storage::reservoir::{verif, AtomicSamplingReservoir};
use std::cell::{Cell, RefCell};
use std::panic::{catch_unwind, AssertUnwindSafe};
use std::sync::atomic::{AtomicBool, Ordering::SeqCst};
use std::sync::Arc;

const DEFAULT_CAP: usize = 1024; // metrics-exporter-dogstatsd/src/builder.rs: DEFAULT_HISTOGRAM_RESERVOIR_SIZE

thread_local! {
    static RAW: Cell<usize> = Cell::new(0);
    static ASKED: RefCell<Vec<usize>> = RefCell::new(Vec::new());
    static QUIET_PANIC: Cell<bool> = Cell::new(false);
    static PARK_AT: Cell<Option<&'static str>> = Cell::new(None);
}

/// the scripted generator: records the requested range, answers `raw % upper`; `upper == 0` falls through to
/// the real generator (which is what panics in the code)
fn scripted(upper: usize) -> Option<usize> {
    ASKED.with(|a| a.borrow_mut().push(upper));
    if upper == 0 {
        None
    } else {
        Some(RAW.with(|r| r.get()) % upper)
    }
}

struct Pushed {
    upper: Option<usize>,
    panicked: bool,
}

fn push_scripted(res: &AtomicSamplingReservoir, v: f64, raw: usize) -> Pushed {
    RAW.with(|r| r.set(raw));
    ASKED.with(|a| a.borrow_mut().clear());
    verif::RNG_OVERRIDE.with(|o| o.set(Some(scripted)));
    QUIET_PANIC.with(|q| q.set(true));
    let r = catch_unwind(AssertUnwindSafe(|| res.push(v)));
    QUIET_PANIC.with(|q| q.set(false));
    verif::RNG_OVERRIDE.with(|o| o.set(None));
    let asked = ASKED.with(|a| a.borrow().clone());
    assert!(asked.len() <= 1, "fastrand consulted more than once in one push");
    Pushed { upper: asked.first().copied(), panicked: r.is_err() }
}

fn push_answer(p: &Pushed) -> String {
    match (p.panicked, p.upper) {
        (false, None) => "ok ~".into(),
        (false, Some(u)) => format!("ok {}", u),
        (true, Some(u)) => format!("panic {}", u),
        (true, None) => "panic ~".into(),
    }
}

struct Drained {
    len: usize,
    rate: f64,
    /// sample_rate() asked again after each pulled value and at the end (the rate is a property of the drain,
    /// not of how much of it has been read)
    rates_later: Vec<f64>,
    len_after: usize,
    vals: Vec<u64>,
}

/// `consume` with a closure that reads `len()`, `sample_rate()` and the first `k` (or all) values, then drops
fn consume(res: &AtomicSamplingReservoir, k: Option<usize>) -> Drained {
    let mut d = Drained { len: 0, rate: 0.0, rates_later: vec![], len_after: 0, vals: vec![] };
    res.consume(|mut drain| {
        d.len = drain.len();
        d.rate = drain.sample_rate();
        match k {
            None => {
                while let Some(v) = drain.next() {
                    d.vals.push(v.to_bits());
                    if d.rates_later.len() < 4 {
                        d.rates_later.push(drain.sample_rate());
                    }
                }
            }
            Some(k) => {
                for _ in 0..k {
                    match drain.next() {
                        Some(v) => {
                            d.vals.push(v.to_bits());
                            if d.rates_later.len() < 4 {
                                d.rates_later.push(drain.sample_rate());
                            }
                        }
                        None => break,
                    }
                }
            }
        }
        d.rates_later.push(drain.sample_rate());
        d.len_after = drain.len();
    });
    d
}

fn consume_answer(d: &Drained) -> String {
    format!("len={} rate={} vals={}", d.len, f64bits(d.rate), list(d.vals.iter().map(|b| format!("{:016x}", b))))
}

fn is_sub_multiset(sub: &[u64], sup: &[u64]) -> bool {
    let mut a = sup.to_vec();
    for x in sub {
        match a.iter().position(|y| y == x) {
            Some(i) => {
                a.swap_remove(i);
            }
            None => return false,
        }
    }
    true
}

const WILD: &[u64] = &[
    0x0000_0000_0000_0000, // 0.0 (also the initial slot content)
    0x8000_0000_0000_0000, // -0.0
    0x7ff0_0000_0000_0000, // inf
    0xfff0_0000_0000_0000, // -inf
    0x7ff8_0000_0000_0000, // NaN
    0x7ff8_0000_0000_0001, // NaN with payload
    0xfff8_0000_0000_0000, // -NaN
    0x7ff0_0000_0000_0001, // signalling NaN
    0x0000_0000_0000_0001, // smallest subnormal
    0x7fef_ffff_ffff_ffff, // f64::MAX
    0xffef_ffff_ffff_ffff, // f64::MIN
    0x3ff0_0000_0000_0000, // 1.0
];

fn pick_cap(r: &mut Rng) -> usize {
    match r.weighted(&[3, 4, 4, 4, 3, 1, 2]) {
        0 => 0,
        1 => 1,
        2 => 2,
        3 => 3,
        4 => 8,
        5 => DEFAULT_CAP,
        _ => r.range(4, 20),
    }
}

fn pick_n(r: &mut Rng, cap: usize) -> usize {
    match r.weighted(&[1, 1, 2, 2, 2, 3, 2]) {
        0 => 0,
        1 => 1,
        2 => cap.saturating_sub(1),
        3 => cap,
        4 => cap + 1,
        5 => cap + r.range(2, 12),
        _ => 2 * cap + r.below(4),
    }
}

fn pick_raw(r: &mut Rng, idx_guess: usize) -> usize {
    match r.below(6) {
        0 => 0,
        1 => idx_guess,                      // largest choice of 0..=idx
        2 => idx_guess.saturating_sub(1),
        3 => r.below(8),
        _ => (r.next() >> 1) as usize,
    }
}

/// one scripted session: repeated push/drain cycles on one reservoir
fn session(r: &mut Rng, out: &mut Out, cap: usize, wild: bool) {
    let res = AtomicSamplingReservoir::new(cap);
    out.op(&format!("reservoir new {}", cap), "ok");
    out.count(&format!("cap={}", if cap == DEFAULT_CAP { "default".to_string() } else if cap > 8 { "9..20".into() } else { cap.to_string() }));
    if wild {
        out.count("values=wild f64 bit patterns");
    } else {
        out.count("values=stream positions");
    }
    let cycles = if cap == DEFAULT_CAP { r.range(1, 2) } else { r.range(1, 5) };
    let mut sampled_cycles = 0;
    for cycle in 0..cycles {
        let n = pick_n(r, cap);
        out.count(if n < cap { "n<cap" } else if n == cap { "n=cap" } else { "n>cap" });
        let mut pushed: Vec<u64> = Vec::with_capacity(n);
        for pos in 0..n {
            let v = if wild {
                if r.chance(2, 3) {
                    f64::from_bits(*r.pick(WILD))
                } else {
                    f64::from_bits(r.next())
                }
            } else {
                (cycle * 1_000_000 + pos) as f64
            };
            let raw = pick_raw(r, pos);
            let p = push_scripted(&res, v, raw);
            out.op(&format!("reservoir push {:016x} {}", v.to_bits(), raw), &push_answer(&p));
            if p.panicked {
                out.count("push panicked");
                out.oracle_fail(
                    "push panicked",
                    &format!("cap={} cycle={} push #{} (value bits {:016x}): fastrand asked for range 0..{:?}", cap, cycle, pos, v.to_bits(), p.upper),
                );
            }
            pushed.push(v.to_bits());
            if pos == 0 && r.chance(1, 4) {
                let e = res.is_empty();
                out.op("reservoir empty", if e { "1" } else { "0" });
                if e {
                    out.oracle_fail("is_empty() is true after a push", &format!("cap={} cycle={}", cap, cycle));
                }
            }
        }
        let partial = r.chance(1, 6);
        let k = if partial { Some(r.below(cap.min(n) + 2)) } else { None };
        let d = consume(&res, k);
        out.op(&format!("reservoir consume {}", k.map(|k| k.to_string()).unwrap_or("~".into())), &consume_answer(&d));
        // ---- oracles on what the real code returned
        let ctx = || format!("cap={} cycle={} pushed n={} yielded={} len={} rate={:?}", cap, cycle, n, d.vals.len(), d.len, d.rate);
        let expect_len = n.min(cap);
        if d.len != expect_len {
            out.oracle_fail("drain length is not min(pushed, capacity)", &ctx());
        }
        if !is_sub_multiset(&d.vals, &pushed) {
            out.oracle_fail("drain yields a value not pushed since the previous drain", &format!("{} vals={:x?} pushed={:x?}", ctx(), d.vals, pushed));
        }
        if k.is_none() {
            if d.vals.len() != d.len {
                out.oracle_fail("drain yields a number of values different from its len()", &ctx());
            }
            if n <= cap && d.vals != pushed {
                out.oracle_fail("not all pushed values are yielded although no more than capacity were pushed", &format!("{} vals={:x?} pushed={:x?}", ctx(), d.vals, pushed));
            }
        }
        let expect_rate = if n == 0 { 1.0 } else { d.len as f64 / n as f64 };
        if d.rate.to_bits() != expect_rate.to_bits() {
            out.oracle_fail("sample rate is not yielded / pushed", &format!("{} expected {:?}", ctx(), expect_rate));
        }
        if let Some(bad) = d.rates_later.iter().find(|x| x.to_bits() != expect_rate.to_bits()) {
            out.oracle_fail(
                "sample rate asked after values were pulled is not yielded / pushed",
                &format!("{} expected {:?}, sample_rate() after pulling {} value(s) gave {:?} (all later answers {:?})", ctx(), expect_rate, d.vals.len(), bad, d.rates_later),
            );
        }
        if d.len_after + d.vals.len() != d.len {
            out.oracle_fail("len() after pulling k values is not len - k", &format!("{} len_after={}", ctx(), d.len_after));
        }
        if !res.is_empty() {
            out.oracle_fail("reservoir not empty after a drain", &ctx());
        }
        if n > cap && cap > 0 {
            sampled_cycles += 1;
        }
        if r.chance(1, 3) {
            let e = res.is_empty();
            out.op("reservoir empty", if e { "1" } else { "0" });
            let d2 = consume(&res, None);
            out.op("reservoir consume ~", &consume_answer(&d2));
            if d2.len != 0 || !d2.vals.is_empty() || d2.rate != 1.0 {
                out.oracle_fail("a drain directly after a drain is not empty", &format!("cap={} len={} vals={:x?}", cap, d2.len, d2.vals));
            }
        }
    }
    if sampled_cycles > 0 {
        out.nontrivial();
    }
}

/// exact enumeration of all choice vectors on the real code; returns (total, per-position counts) or the
/// index of the push that panicked
fn enumerate(cap: usize, n: usize) -> Result<(u64, Vec<u64>), String> {
    let res = AtomicSamplingReservoir::new(cap);
    let mut choice: Vec<usize> = vec![]; // one entry per push that consulted the generator
    let mut total = 0u64;
    let mut counts = vec![0u64; n];
    let mut first_uppers: Option<Vec<usize>> = None;
    loop {
        let mut uppers: Vec<usize> = vec![];
        for pos in 0..n {
            let t = uppers.len();
            let c = choice.get(t).copied().unwrap_or(0);
            let p = push_scripted(&res, pos as f64, c);
            if p.panicked {
                return Err(format!("push #{} panicked", pos));
            }
            if let Some(u) = p.upper {
                uppers.push(u);
            }
        }
        // identical cycles on a drained reservoir must ask the generator for the same ranges
        match &first_uppers {
            None => first_uppers = Some(uppers.clone()),
            Some(f) if *f != uppers => {
                return Err(format!(
                    "cycle {} of {} pushes asked the generator for ranges {:?}, the first cycle for {:?}: a drain did not leave the reservoir empty",
                    total + 1, n, uppers, f
                ));
            }
            _ => {}
        }
        choice.resize(uppers.len(), 0);
        let d = consume(&res, None);
        total += 1;
        for b in &d.vals {
            let pos = f64::from_bits(*b) as usize;
            if pos >= n {
                return Err(format!("cycle {} yielded the value {} which was not pushed in it", total, pos));
            }
            counts[pos] += 1;
        }
        // odometer
        let mut t = choice.len();
        loop {
            if t == 0 {
                return Ok((total, counts));
            }
            t -= 1;
            if choice[t] + 1 < uppers[t] {
                choice[t] += 1;
                for x in choice.iter_mut().skip(t + 1) {
                    *x = 0;
                }
                break;
            }
        }
    }
}

fn enum_case(out: &mut Out, cap: usize, n: usize) {
    out.case(&format!("enum cap={} n={}", cap, n));
    out.count("exact enumerations");
    match enumerate(cap, n) {
        Ok((total, counts)) => {
            out.op(
                &format!("reservoir enum {} {}", cap, n),
                &format!("total={} counts={}", total, list(counts.iter().map(|c| c.to_string()))),
            );
            out.count_n("choice vectors enumerated on the real code", total);
            if n > cap && cap > 0 {
                out.nontrivial();
            }
            let bad: Vec<usize> = (0..n).filter(|&i| counts[i] * n as u64 != cap as u64 * total).collect();
            if !bad.is_empty() {
                out.oracle_fail(
                    "retention is not uniform over stream positions (exact enumeration of every random choice on the real code)",
                    &format!(
                        "cap={} n={}: {} choice vectors; position i is retained under counts[i]={:?} of them; uniform needs counts[i]*n = cap*total for every i; fails at positions {:?}",
                        cap, n, total, counts, bad
                    ),
                );
            }
        }
        Err(why) => {
            out.op(&format!("reservoir enum {} {}", cap, n), "failed");
            let what = if why.contains("panicked") { "push panicked" } else { "repeated push/drain cycles are not independent" };
            out.oracle_fail(what, &format!("cap={} n={}: {} (during exact enumeration)", cap, n, why));
        }
    }
}

/// real generator, no scripting: retention frequencies over `trials` cycles on one reservoir
fn stat_case(out: &mut Out, cap: usize, n: usize, trials: usize) {
    out.case(&format!("stat cap={} n={} trials={}", cap, n, trials));
    out.count("statistical searches (real generator)");
    let res = AtomicSamplingReservoir::new(cap);
    let mut counts = vec![0u64; n];
    let mut foreign = 0u64;
    let mut wrong_len = 0u64;
    QUIET_PANIC.with(|q| q.set(true));
    let r = catch_unwind(AssertUnwindSafe(|| {
        for _ in 0..trials {
            for pos in 0..n {
                res.push(pos as f64);
            }
            res.consume(|drain| {
                if drain.len() != cap.min(n) {
                    wrong_len += 1;
                }
                for v in drain {
                    if v >= 0.0 && (v as usize) < n {
                        counts[v as usize] += 1;
                    } else {
                        foreign += 1;
                    }
                }
            });
        }
    }));
    QUIET_PANIC.with(|q| q.set(false));
    if r.is_err() {
        out.oracle_fail("push panicked", &format!("cap={} n={} with the real generator", cap, n));
        return;
    }
    if foreign > 0 || wrong_len > 0 {
        out.oracle_fail(
            "repeated push/drain cycles are not independent",
            &format!("cap={} n={} trials={} (real generator): {} drains of a length other than min(n,cap), {} yielded values not pushed in the cycle", cap, n, trials, wrong_len, foreign),
        );
        return;
    }
    out.nontrivial();
    // Hoeffding: P(|X - T p| >= t) <= 2 exp(-2 t^2 / T); delta = 1e-11 per position
    let t = ((trials as f64) * (2.0e11f64).ln() / 2.0).sqrt();
    let expect = trials as f64 * (cap.min(n)) as f64 / n as f64;
    let bad: Vec<usize> = (0..n).filter(|&i| (counts[i] as f64 - expect).abs() > t).collect();
    if !bad.is_empty() {
        out.oracle_fail(
            "retention frequency differs from capacity/n (real generator)",
            &format!(
                "cap={} n={} trials={}: retained counts per position {:?}; expected {:.1} ± {:.1} (Hoeffding, false alarm < 1e-11 per position); outside at positions {:?}",
                cap, n, trials, counts, expect, t, bad
            ),
        );
    }
}

// ---------------------------------------------------------------------------------------------
// stream D: a push overlapping a drain (K-C16-straddle)

static PARKED: AtomicBool = AtomicBool::new(false);
static RESUME: AtomicBool = AtomicBool::new(false);

fn point_hook(id: &'static str) {
    if PARK_AT.with(|p| p.get()) == Some(id) {
        PARK_AT.with(|p| p.set(None));
        PARKED.store(true, SeqCst);
        wait_for(&RESUME);
    }
}

fn wait_for(flag: &AtomicBool) {
    let t0 = std::time::Instant::now();
    while !flag.load(SeqCst) {
        std::thread::yield_now();
        if t0.elapsed().as_secs() > 20 {
            panic!("C16 straddle schedule: timeout");
        }
    }
}

/// thread T runs `push(v)` and parks at `point`; returns after T is parked
fn start_parked_push(res: &Arc<AtomicSamplingReservoir>, v: f64, point: &'static str) -> std::thread::JoinHandle<()> {
    PARKED.store(false, SeqCst);
    RESUME.store(false, SeqCst);
    let res = res.clone();
    let h = std::thread::spawn(move || {
        PARK_AT.with(|p| p.set(Some(point)));
        res.push(v);
    });
    wait_for(&PARKED);
    h
}

fn straddle(out: &mut Out) {
    *verif::POINT_HOOK.write().unwrap() = Some(point_hook);
    // schedule 1: the push selected the primary reservoir before the swap and claims its slot after the drain
    // has read `count` but before Drain::drop resets it.
    out.case("straddle schedule 1 (push parked after loading use_primary)");
    out.count("straddle schedules");
    {
        let res = Arc::new(AtomicSamplingReservoir::new(4));
        res.push(1.0);
        res.push(2.0);
        let h = start_parked_push(&res, 3.0, "reservoir.push.selected");
        let mut h = Some(h);
        let mut drains: Vec<(Vec<f64>, f64)> = vec![];
        let mut first = (vec![], 0.0);
        res.consume(|drain| {
            // Drain exists: unsampled_len = 2 was read. Now let T finish its push into the same reservoir.
            RESUME.store(true, SeqCst);
            h.take().unwrap().join().unwrap();
            first.1 = drain.sample_rate();
            first.0 = drain.collect();
        });
        drains.push(first);
        for _ in 0..3 {
            let mut d = (vec![], 0.0);
            res.consume(|drain| {
                d.1 = drain.sample_rate();
                d.0 = drain.collect();
            });
            drains.push(d);
        }
        let seen = drains.iter().any(|d| d.0.contains(&3.0));
        out.count(if seen { "straddle 1: value delivered" } else { "straddle 1: value lost" });
        if !seen {
            out.oracle_fail(
                "K-C16-straddle: a completed push is neither yielded nor counted by any drain",
                &format!(
                    "cap=4; push 1.0; push 2.0; T: push(3.0) parked at reservoir.push.selected (use_primary=true loaded); main: consume -> swap, drain(): count=2 read; T resumes: fetch_add -> idx 2, store; main: iterate + Drain::drop (count:=0); 3 more consumes. drains (values, rate) = {:?}; 3.0 never appears and no rate accounts for it",
                    drains
                ),
            );
        }
    }
    // schedule 2: the push has claimed its index (count incremented) but not stored yet when the drain reads the slot
    out.case("straddle schedule 2 (push parked between fetch_add and store)");
    out.count("straddle schedules");
    {
        let res = Arc::new(AtomicSamplingReservoir::new(4));
        let h = start_parked_push(&res, 7.0, "reservoir.push.claimed");
        let mut first = (vec![], 0.0);
        res.consume(|drain| {
            first.1 = drain.sample_rate();
            first.0 = drain.collect();
        });
        RESUME.store(true, SeqCst);
        h.join().unwrap();
        let mut later: Vec<Vec<f64>> = vec![];
        for _ in 0..3 {
            res.consume(|drain| later.push(drain.collect()));
        }
        let invented = first.0.iter().any(|v| *v != 7.0);
        let lost = !first.0.contains(&7.0) && !later.iter().any(|d| d.contains(&7.0));
        out.count(if invented { "straddle 2: never-pushed value yielded" } else { "straddle 2: clean" });
        if invented || lost {
            out.oracle_fail(
                "K-C16-straddle: a drain overlapping a push yields a value that was never pushed and the pushed value is lost",
                &format!(
                    "cap=4 fresh; T: push(7.0) parked at reservoir.push.claimed (count=1, slot 0 not stored); main: consume -> yields {:?} rate {:?}; T resumes (stores 7.0, count already reset to 0); 3 more consumes yield {:?}",
                    first.0, first.1, later
                ),
            );
        }
    }
    // grid: a push that has selected its reservoir, then `j` COMPLETE consumes on another thread, then the push
    // finishes.  Nothing overlaps a drain here, so every value (the straggler included) must come out of exactly
    // one drain, with rate 1.0 (never more than the capacity is pushed), and drains in between start from empty.
    for prefill in [0usize, 1, 3] {
        for j in 1..=3usize {
            for after in [0usize, 2] {
                out.case(&format!("parked push grid prefill={} consumes_while_parked={} pushes_after={}", prefill, j, after));
                out.count("parked-push grid cases");
                let res = Arc::new(AtomicSamplingReservoir::new(8));
                let mut expected: Vec<f64> = vec![];
                for i in 0..prefill {
                    res.push(10.0 + i as f64);
                    expected.push(10.0 + i as f64);
                }
                let h = start_parked_push(&res, 99.0, "reservoir.push.selected");
                expected.push(99.0);
                let mut drains: Vec<(Vec<f64>, f64)> = vec![];
                let mut one = |res: &AtomicSamplingReservoir, drains: &mut Vec<(Vec<f64>, f64)>| {
                    let mut d = (vec![], 0.0);
                    res.consume(|drain| {
                        d.1 = drain.sample_rate();
                        d.0 = drain.collect();
                    });
                    drains.push(d);
                };
                for _ in 0..j {
                    one(&res, &mut drains);
                }
                RESUME.store(true, SeqCst);
                h.join().unwrap();
                for i in 0..after {
                    res.push(50.0 + i as f64);
                    expected.push(50.0 + i as f64);
                }
                for _ in 0..4 {
                    one(&res, &mut drains);
                }
                let mut got: Vec<f64> = drains.iter().flat_map(|d| d.0.iter().copied()).collect();
                let mut exp = expected.clone();
                got.sort_by(|a, b| a.partial_cmp(b).unwrap());
                exp.sort_by(|a, b| a.partial_cmp(b).unwrap());
                let rates_ok = drains.iter().all(|d| d.1 == 1.0);
                if got != exp || !rates_ok {
                    out.oracle_fail(
                        "a push that selected its reservoir before complete drains ran is lost, duplicated or mis-counted",
                        &format!(
                            "cap=8; {} values pushed; T: push(99.0) parked at reservoir.push.selected; main: {} complete consume(s); T resumes; {} more pushes; 4 more consumes. drains (values, rate) = {:?}; expected every one of {:?} exactly once and all rates 1.0",
                            prefill, j, after, drains, expected
                        ),
                    );
                }
            }
        }
    }
    *verif::POINT_HOOK.write().unwrap() = None;
}

pub fn run(cfg: &Cfg, out: &mut Out) {
    let prev = std::panic::take_hook();
    std::panic::set_hook(Box::new(move |info| {
        if !QUIET_PANIC.with(|q| q.get()) {
            prev(info);
        }
    }));
    let root = Rng::new(cfg.seed);
    // watchdog: a hung run must end as a failed run, not as a hung check
    std::thread::spawn(|| {
        std::thread::sleep(std::time::Duration::from_secs(1200));
        eprintln!("C16 harness: watchdog timeout");
        std::process::exit(3);
    });

    // ---- corpus: past findings first
    // cap = 0 (panicked before the repair), cap = 1 with two pushes (first value never retained before the repair)
    for (cap, n) in [(0usize, 1usize), (0, 3), (1, 2), (1, 3), (2, 3)] {
        enum_case(out, cap, n);
    }
    {
        let mut r = root.fork(0xC16);
        out.case("corpus cap=0 session");
        session(&mut r, out, 0, false);
        out.case("corpus cap=1 session");
        session(&mut r, out, 1, false);
        out.case("corpus default capacity session");
        session(&mut r, out, DEFAULT_CAP, false);
    }

    // ---- stream B: exact enumeration on the real code
    let mut pairs: Vec<(usize, usize)> = vec![];
    let max_extra = if cfg.thorough { 5 } else { 3 };
    for cap in 0..=4usize {
        for extra in 0..=max_extra {
            let n = cap + extra;
            if n == 0 || (cap == 0 && extra > 4) {
                continue;
            }
            pairs.push((cap, n));
        }
    }
    if cfg.thorough {
        pairs.extend([(1, 7), (2, 8), (8, 11)]);
    }
    for (cap, n) in pairs {
        enum_case(out, cap, n);
    }

    // ---- stream C: statistics with the real generator
    let trials = if cfg.thorough { 40_000 } else { 4_000 };
    for (cap, n) in [(1usize, 2usize), (1, 3), (1, 5), (2, 3), (2, 5), (3, 4), (3, 7), (4, 6), (8, 12), (8, 20)] {
        stat_case(out, cap, n, trials);
    }

    // ---- stream D: known finding
    straddle(out);

    // ---- stream A: scripted sessions
    for i in 0..cfg.cases {
        let mut r = root.fork(i as u64);
        let cap = pick_cap(&mut r);
        let wild = r.chance(1, 4);
        out.case(&format!("seed={} i={}", cfg.seed, i));
        session(&mut r, out, cap, wild);
    }
    let _ = std::panic::take_hook();
}
