//! C16 — the sampling reservoir reports true counts and favours no stream position.
//!
//! Drives the real `metrics_util::storage::reservoir::AtomicSamplingReservoir`.
//!
//! * stream A (correspondence + sequential oracles): the `fastrand` override hook scripts every random choice
//!   (raw number `c`, choice `c % upper`) and records the `upper` the code asked for; the same ops go to the Lean
//!   model (`reservoir …`).  Oracles on what the real code returned: drained ⊆ pushed since the last drain,
//!   length = min(n, cap), all in order when n ≤ cap, sample rate = yielded / pushed, empty afterwards, no panic.
//! * stream B (exact enumeration on the real code): for small (cap, n) every vector of random choices the code
//!   can draw is scripted once; per-position retention counts must satisfy count·n = cap·total exactly.  The
//!   table is also compared with the model's `vectors`/`retained` (the definitions of theorem `uniform`).
//! * stream C (statistics, real generator, failing-input search only): per-position retention frequency over
//!   many cycles against cap/n with a Hoeffding bound (false alarm < 1e-11 per position).
//! * stream D (parked-push grid): a push that selected its side, then complete drains, then the push finishes.
//! * stream E (concurrency, `conc_*`): pusher and consumer threads under a token-passing scheduler over the yield
//!   points of `push` and of the consume closure; the executed schedule is replayed on the Lean step machine
//!   (`reservoir crun …`, Model/ReservoirConc).  Oracles independent of the model, computed from the trace:
//!   no panic; len/rate consistent; Σ pushed-counts reported = pushes − pushes whose claim fell between a drain's
//!   `count.load` and its reset (exact); no stale/duplicate value unless a push was between claim and store when a
//!   drain of its side loaded the count (K-C16-straddle); exact conservation when nothing overlaps.
//!   Corpus schedules (the two K-C16-straddle witnesses, pushes resumed after a complete drain at/over capacity,
//!   late claims followed by further cycles), seeded random schedules, exhaustive enumeration of small configurations.
//! * stream F (probes without the scheduler): the `swap` mutex really excludes a second consumer; a panicking
//!   closure; free-running stress with several pushers; independence of the per-thread generators; real generator
//!   at stream lengths beyond 1024 and 4096.
//! * stream G: the DogStatsD sampled-histogram path (`AtomicHistogram::Sampled`, `State::flush`) end to end.
use crate::util::*;
use metrics_util::storage::reservoir::{verif, AtomicSamplingReservoir};
use std::cell::{Cell, RefCell};
use std::panic::{catch_unwind, AssertUnwindSafe};
use std::sync::atomic::{AtomicBool, AtomicUsize, Ordering::SeqCst};
use std::sync::{Arc, Condvar, Mutex};

const DEFAULT_CAP: usize = 1024; // metrics-exporter-dogstatsd/src/builder.rs: DEFAULT_HISTOGRAM_RESERVOIR_SIZE

thread_local! {
    static RAW: Cell<usize> = Cell::new(0);
    static ASKED: RefCell<Vec<usize>> = RefCell::new(Vec::new());
    static QUIET_PANIC: Cell<bool> = Cell::new(false);
    static PARK_AT: Cell<Option<&'static str>> = Cell::new(None);
}

/// the scripted generator: records the requested range, answers `raw % upper`; `upper == 0` falls through to
/// the real generator (which is what panics in the code)
fn scripted(upper: usize) -> Option<usize> {
    ASKED.with(|a| a.borrow_mut().push(upper));
    if upper == 0 {
        None
    } else {
        Some(RAW.with(|r| r.get()) % upper)
    }
}

struct Pushed {
    upper: Option<usize>,
    panicked: bool,
}

fn push_scripted(res: &AtomicSamplingReservoir, v: f64, raw: usize) -> Pushed {
    RAW.with(|r| r.set(raw));
    ASKED.with(|a| a.borrow_mut().clear());
    verif::RNG_OVERRIDE.with(|o| o.set(Some(scripted)));
    QUIET_PANIC.with(|q| q.set(true));
    let r = catch_unwind(AssertUnwindSafe(|| res.push(v)));
    QUIET_PANIC.with(|q| q.set(false));
    verif::RNG_OVERRIDE.with(|o| o.set(None));
    let asked = ASKED.with(|a| a.borrow().clone());
    assert!(asked.len() <= 1, "fastrand consulted more than once in one push");
    Pushed { upper: asked.first().copied(), panicked: r.is_err() }
}

fn push_answer(p: &Pushed) -> String {
    match (p.panicked, p.upper) {
        (false, None) => "ok ~".into(),
        (false, Some(u)) => format!("ok {}", u),
        (true, Some(u)) => format!("panic {}", u),
        (true, None) => "panic ~".into(),
    }
}

struct Drained {
    len: usize,
    rate: f64,
    /// sample_rate() asked again after each pulled value and at the end (the rate is a property of the drain,
    /// not of how much of it has been read)
    rates_later: Vec<f64>,
    len_after: usize,
    vals: Vec<u64>,
}

/// `consume` with a closure that reads `len()`, `sample_rate()` and the first `k` (or all) values, then drops
fn consume(res: &AtomicSamplingReservoir, k: Option<usize>) -> Drained {
    let mut d = Drained { len: 0, rate: 0.0, rates_later: vec![], len_after: 0, vals: vec![] };
    res.consume(|mut drain| {
        d.len = drain.len();
        d.rate = drain.sample_rate();
        match k {
            None => {
                while let Some(v) = drain.next() {
                    d.vals.push(v.to_bits());
                    if d.rates_later.len() < 4 {
                        d.rates_later.push(drain.sample_rate());
                    }
                }
            }
            Some(k) => {
                for _ in 0..k {
                    match drain.next() {
                        Some(v) => {
                            d.vals.push(v.to_bits());
                            if d.rates_later.len() < 4 {
                                d.rates_later.push(drain.sample_rate());
                            }
                        }
                        None => break,
                    }
                }
            }
        }
        d.rates_later.push(drain.sample_rate());
        d.len_after = drain.len();
    });
    d
}

fn consume_answer(d: &Drained) -> String {
    format!("len={} rate={} vals={}", d.len, f64bits(d.rate), list(d.vals.iter().map(|b| format!("{:016x}", b))))
}

fn is_sub_multiset(sub: &[u64], sup: &[u64]) -> bool {
    let mut a = sup.to_vec();
    for x in sub {
        match a.iter().position(|y| y == x) {
            Some(i) => {
                a.swap_remove(i);
            }
            None => return false,
        }
    }
    true
}

const WILD: &[u64] = &[
    0x0000_0000_0000_0000, // 0.0 (also the initial slot content)
    0x8000_0000_0000_0000, // -0.0
    0x7ff0_0000_0000_0000, // inf
    0xfff0_0000_0000_0000, // -inf
    0x7ff8_0000_0000_0000, // NaN
    0x7ff8_0000_0000_0001, // NaN with payload
    0xfff8_0000_0000_0000, // -NaN
    0x7ff0_0000_0000_0001, // signalling NaN
    0x0000_0000_0000_0001, // smallest subnormal
    0x7fef_ffff_ffff_ffff, // f64::MAX
    0xffef_ffff_ffff_ffff, // f64::MIN
    0x3ff0_0000_0000_0000, // 1.0
];

fn pick_cap(r: &mut Rng) -> usize {
    match r.weighted(&[3, 4, 4, 4, 3, 1, 2]) {
        0 => 0,
        1 => 1,
        2 => 2,
        3 => 3,
        4 => 8,
        5 => DEFAULT_CAP,
        _ => r.range(4, 20),
    }
}

fn pick_n(r: &mut Rng, cap: usize) -> usize {
    match r.weighted(&[1, 1, 2, 2, 2, 3, 2]) {
        0 => 0,
        1 => 1,
        2 => cap.saturating_sub(1),
        3 => cap,
        4 => cap + 1,
        5 => cap + r.range(2, 12),
        _ => 2 * cap + r.below(4),
    }
}

fn pick_raw(r: &mut Rng, idx_guess: usize) -> usize {
    match r.below(6) {
        0 => 0,
        1 => idx_guess,                      // largest choice of 0..=idx
        2 => idx_guess.saturating_sub(1),
        3 => r.below(8),
        _ => (r.next() >> 1) as usize,
    }
}

/// one scripted session: repeated push/drain cycles on one reservoir
fn session(r: &mut Rng, out: &mut Out, cap: usize, wild: bool) {
    let res = AtomicSamplingReservoir::new(cap);
    out.op(&format!("reservoir new {}", cap), "ok");
    out.count(&format!("cap={}", if cap == DEFAULT_CAP { "default".to_string() } else if cap > 8 { "9..20".into() } else { cap.to_string() }));
    if wild {
        out.count("values=wild f64 bit patterns");
    } else {
        out.count("values=stream positions");
    }
    let cycles = if cap == DEFAULT_CAP { r.range(1, 2) } else { r.range(1, 5) };
    let mut sampled_cycles = 0;
    for cycle in 0..cycles {
        let n = pick_n(r, cap);
        out.count(if n < cap { "n<cap" } else if n == cap { "n=cap" } else { "n>cap" });
        let mut pushed: Vec<u64> = Vec::with_capacity(n);
        for pos in 0..n {
            let v = if wild {
                if r.chance(2, 3) {
                    f64::from_bits(*r.pick(WILD))
                } else {
                    f64::from_bits(r.next())
                }
            } else {
                (cycle * 1_000_000 + pos) as f64
            };
            let raw = pick_raw(r, pos);
            let p = push_scripted(&res, v, raw);
            out.op(&format!("reservoir push {:016x} {}", v.to_bits(), raw), &push_answer(&p));
            if p.panicked {
                out.count("push panicked");
                out.oracle_fail(
                    "push panicked",
                    &format!("cap={} cycle={} push #{} (value bits {:016x}): fastrand asked for range 0..{:?}", cap, cycle, pos, v.to_bits(), p.upper),
                );
            }
            pushed.push(v.to_bits());
            if pos == 0 && r.chance(1, 4) {
                let e = res.is_empty();
                out.op("reservoir empty", if e { "1" } else { "0" });
                if e {
                    out.oracle_fail("is_empty() is true after a push", &format!("cap={} cycle={}", cap, cycle));
                }
            }
        }
        let partial = r.chance(1, 6);
        let k = if partial { Some(r.below(cap.min(n) + 2)) } else { None };
        let d = consume(&res, k);
        out.op(&format!("reservoir consume {}", k.map(|k| k.to_string()).unwrap_or("~".into())), &consume_answer(&d));
        // ---- oracles on what the real code returned
        let ctx = || format!("cap={} cycle={} pushed n={} yielded={} len={} rate={:?}", cap, cycle, n, d.vals.len(), d.len, d.rate);
        let expect_len = n.min(cap);
        if d.len != expect_len {
            out.oracle_fail("drain length is not min(pushed, capacity)", &ctx());
        }
        if !is_sub_multiset(&d.vals, &pushed) {
            out.oracle_fail("drain yields a value not pushed since the previous drain", &format!("{} vals={:x?} pushed={:x?}", ctx(), d.vals, pushed));
        }
        if k.is_none() {
            if d.vals.len() != d.len {
                out.oracle_fail("drain yields a number of values different from its len()", &ctx());
            }
            if n <= cap && d.vals != pushed {
                out.oracle_fail("not all pushed values are yielded although no more than capacity were pushed", &format!("{} vals={:x?} pushed={:x?}", ctx(), d.vals, pushed));
            }
        }
        let expect_rate = if n == 0 { 1.0 } else { d.len as f64 / n as f64 };
        if d.rate.to_bits() != expect_rate.to_bits() {
            out.oracle_fail("sample rate is not yielded / pushed", &format!("{} expected {:?}", ctx(), expect_rate));
        }
        if let Some(bad) = d.rates_later.iter().find(|x| x.to_bits() != expect_rate.to_bits()) {
            out.oracle_fail(
                "sample rate asked after values were pulled is not yielded / pushed",
                &format!("{} expected {:?}, sample_rate() after pulling {} value(s) gave {:?} (all later answers {:?})", ctx(), expect_rate, d.vals.len(), bad, d.rates_later),
            );
        }
        if d.len_after + d.vals.len() != d.len {
            out.oracle_fail("len() after pulling k values is not len - k", &format!("{} len_after={}", ctx(), d.len_after));
        }
        if !res.is_empty() {
            out.oracle_fail("reservoir not empty after a drain", &ctx());
        }
        if n > cap && cap > 0 {
            sampled_cycles += 1;
        }
        if r.chance(1, 3) {
            let e = res.is_empty();
            out.op("reservoir empty", if e { "1" } else { "0" });
            let d2 = consume(&res, None);
            out.op("reservoir consume ~", &consume_answer(&d2));
            if d2.len != 0 || !d2.vals.is_empty() || d2.rate != 1.0 {
                out.oracle_fail("a drain directly after a drain is not empty", &format!("cap={} len={} vals={:x?}", cap, d2.len, d2.vals));
            }
        }
    }
    // a closure that leaks the Drain (mem::forget): Drain::drop never runs, the count of the retired side is not
    // reset.  Outside the property's assumptions; compared with the model only (Lean: forget_breaks_next_drain).
    if r.chance(1, 5) {
        out.count("sessions ending with a leaked Drain (mem::forget)");
        let n = r.range(1, cap + 2);
        for pos in 0..n {
            let v = (9_000_000 + pos) as f64;
            let raw = pick_raw(r, pos);
            let p = push_scripted(&res, v, raw);
            out.op(&format!("reservoir push {:016x} {}", v.to_bits(), raw), &push_answer(&p));
        }
        let mut d = Drained { len: 0, rate: 0.0, rates_later: vec![], len_after: 0, vals: vec![] };
        res.consume(|mut drain| {
            d.len = drain.len();
            d.rate = drain.sample_rate();
            while let Some(v) = drain.next() {
                d.vals.push(v.to_bits());
            }
            std::mem::forget(drain);
        });
        out.op("reservoir consumef ~", &consume_answer(&d));
        for _ in 0..3 {
            let e = res.is_empty();
            out.op("reservoir empty", if e { "1" } else { "0" });
            let d2 = consume(&res, None);
            out.op("reservoir consume ~", &consume_answer(&d2));
        }
    }
    if sampled_cycles > 0 {
        out.nontrivial();
    }
}

/// exact enumeration of all choice vectors on the real code; returns (total, per-position counts) or the
/// index of the push that panicked
fn enumerate(cap: usize, n: usize) -> Result<(u64, Vec<u64>), String> {
    let res = AtomicSamplingReservoir::new(cap);
    let mut choice: Vec<usize> = vec![]; // one entry per push that consulted the generator
    let mut total = 0u64;
    let mut counts = vec![0u64; n];
    let mut first_uppers: Option<Vec<usize>> = None;
    loop {
        let mut uppers: Vec<usize> = vec![];
        for pos in 0..n {
            let t = uppers.len();
            let c = choice.get(t).copied().unwrap_or(0);
            let p = push_scripted(&res, pos as f64, c);
            if p.panicked {
                return Err(format!("push #{} panicked", pos));
            }
            if let Some(u) = p.upper {
                uppers.push(u);
            }
        }
        // identical cycles on a drained reservoir must ask the generator for the same ranges
        match &first_uppers {
            None => first_uppers = Some(uppers.clone()),
            Some(f) if *f != uppers => {
                return Err(format!(
                    "cycle {} of {} pushes asked the generator for ranges {:?}, the first cycle for {:?}: a drain did not leave the reservoir empty",
                    total + 1, n, uppers, f
                ));
            }
            _ => {}
        }
        choice.resize(uppers.len(), 0);
        let d = consume(&res, None);
        total += 1;
        for b in &d.vals {
            let pos = f64::from_bits(*b) as usize;
            if pos >= n {
                return Err(format!("cycle {} yielded the value {} which was not pushed in it", total, pos));
            }
            counts[pos] += 1;
        }
        // odometer
        let mut t = choice.len();
        loop {
            if t == 0 {
                return Ok((total, counts));
            }
            t -= 1;
            if choice[t] + 1 < uppers[t] {
                choice[t] += 1;
                for x in choice.iter_mut().skip(t + 1) {
                    *x = 0;
                }
                break;
            }
        }
    }
}

fn enum_case(out: &mut Out, cap: usize, n: usize) {
    out.case(&format!("enum cap={} n={}", cap, n));
    out.count("exact enumerations");
    match enumerate(cap, n) {
        Ok((total, counts)) => {
            out.op(
                &format!("reservoir enum {} {}", cap, n),
                &format!("total={} counts={}", total, list(counts.iter().map(|c| c.to_string()))),
            );
            out.count_n("choice vectors enumerated on the real code", total);
            if n > cap && cap > 0 {
                out.nontrivial();
            }
            let bad: Vec<usize> = (0..n).filter(|&i| counts[i] * n as u64 != cap as u64 * total).collect();
            if !bad.is_empty() {
                out.oracle_fail(
                    "retention is not uniform over stream positions (exact enumeration of every random choice on the real code)",
                    &format!(
                        "cap={} n={}: {} choice vectors; position i is retained under counts[i]={:?} of them; uniform needs counts[i]*n = cap*total for every i; fails at positions {:?}",
                        cap, n, total, counts, bad
                    ),
                );
            }
        }
        Err(why) => {
            out.op(&format!("reservoir enum {} {}", cap, n), "failed");
            let what = if why.contains("panicked") { "push panicked" } else { "repeated push/drain cycles are not independent" };
            out.oracle_fail(what, &format!("cap={} n={}: {} (during exact enumeration)", cap, n, why));
        }
    }
}

/// real generator, no scripting: retention frequencies over `trials` cycles on one reservoir
fn stat_case(out: &mut Out, cap: usize, n: usize, trials: usize) {
    out.case(&format!("stat cap={} n={} trials={}", cap, n, trials));
    out.count("statistical searches (real generator)");
    let res = AtomicSamplingReservoir::new(cap);
    let mut counts = vec![0u64; n];
    let mut foreign = 0u64;
    let mut wrong_len = 0u64;
    QUIET_PANIC.with(|q| q.set(true));
    let r = catch_unwind(AssertUnwindSafe(|| {
        for _ in 0..trials {
            for pos in 0..n {
                res.push(pos as f64);
            }
            res.consume(|drain| {
                if drain.len() != cap.min(n) {
                    wrong_len += 1;
                }
                for v in drain {
                    if v >= 0.0 && (v as usize) < n {
                        counts[v as usize] += 1;
                    } else {
                        foreign += 1;
                    }
                }
            });
        }
    }));
    QUIET_PANIC.with(|q| q.set(false));
    if r.is_err() {
        out.oracle_fail("push panicked", &format!("cap={} n={} with the real generator", cap, n));
        return;
    }
    if foreign > 0 || wrong_len > 0 {
        out.oracle_fail(
            "repeated push/drain cycles are not independent",
            &format!("cap={} n={} trials={} (real generator): {} drains of a length other than min(n,cap), {} yielded values not pushed in the cycle", cap, n, trials, wrong_len, foreign),
        );
        return;
    }
    out.nontrivial();
    // Hoeffding: P(|X - T p| >= t) <= 2 exp(-2 t^2 / T); delta = 1e-11 per position
    let t = ((trials as f64) * (2.0e11f64).ln() / 2.0).sqrt();
    let expect = trials as f64 * (cap.min(n)) as f64 / n as f64;
    let bad: Vec<usize> = (0..n).filter(|&i| (counts[i] as f64 - expect).abs() > t).collect();
    if !bad.is_empty() {
        out.oracle_fail(
            "retention frequency differs from capacity/n (real generator)",
            &format!(
                "cap={} n={} trials={}: retained counts per position {:?}; expected {:.1} ± {:.1} (Hoeffding, false alarm < 1e-11 per position); outside at positions {:?}",
                cap, n, trials, counts, expect, t, bad
            ),
        );
    }
}

// ---------------------------------------------------------------------------------------------
// stream D: a parked push and complete drains

static PARKED: AtomicBool = AtomicBool::new(false);
static RESUME: AtomicBool = AtomicBool::new(false);

fn point_hook(id: &'static str) {
    mpoint(id);
    if PARK_AT.with(|p| p.get()) == Some(id) {
        PARK_AT.with(|p| p.set(None));
        PARKED.store(true, SeqCst);
        wait_for(&RESUME);
    }
}

fn wait_for(flag: &AtomicBool) {
    let t0 = std::time::Instant::now();
    while !flag.load(SeqCst) {
        std::thread::yield_now();
        if t0.elapsed().as_secs() > 20 {
            panic!("C16 straddle schedule: timeout");
        }
    }
}

/// thread T runs `push(v)` and parks at `point`; returns after T is parked
fn start_parked_push(res: &Arc<AtomicSamplingReservoir>, v: f64, point: &'static str) -> std::thread::JoinHandle<()> {
    PARKED.store(false, SeqCst);
    RESUME.store(false, SeqCst);
    let res = res.clone();
    let h = std::thread::spawn(move || {
        PARK_AT.with(|p| p.set(Some(point)));
        res.push(v);
    });
    wait_for(&PARKED);
    h
}

fn parked_grid(out: &mut Out) {
    // grid: a push that has selected its reservoir, then `j` COMPLETE consumes on another thread, then the push
    // finishes.  Nothing overlaps a drain here, so every value (the straggler included) must come out of exactly
    // one drain, with rate 1.0 (never more than the capacity is pushed), and drains in between start from empty.
    for prefill in [0usize, 1, 3] {
        for j in 1..=3usize {
            for after in [0usize, 2] {
                out.case(&format!("parked push grid prefill={} consumes_while_parked={} pushes_after={}", prefill, j, after));
                out.count("parked-push grid cases");
                let res = Arc::new(AtomicSamplingReservoir::new(8));
                let mut expected: Vec<f64> = vec![];
                for i in 0..prefill {
                    res.push(10.0 + i as f64);
                    expected.push(10.0 + i as f64);
                }
                let h = start_parked_push(&res, 99.0, "reservoir.push.selected");
                expected.push(99.0);
                let mut drains: Vec<(Vec<f64>, f64)> = vec![];
                let mut one = |res: &AtomicSamplingReservoir, drains: &mut Vec<(Vec<f64>, f64)>| {
                    let mut d = (vec![], 0.0);
                    res.consume(|drain| {
                        d.1 = drain.sample_rate();
                        d.0 = drain.collect();
                    });
                    drains.push(d);
                };
                for _ in 0..j {
                    one(&res, &mut drains);
                }
                RESUME.store(true, SeqCst);
                h.join().unwrap();
                for i in 0..after {
                    res.push(50.0 + i as f64);
                    expected.push(50.0 + i as f64);
                }
                for _ in 0..4 {
                    one(&res, &mut drains);
                }
                let mut got: Vec<f64> = drains.iter().flat_map(|d| d.0.iter().copied()).collect();
                let mut exp = expected.clone();
                got.sort_by(|a, b| a.partial_cmp(b).unwrap());
                exp.sort_by(|a, b| a.partial_cmp(b).unwrap());
                let rates_ok = drains.iter().all(|d| d.1 == 1.0);
                if got != exp || !rates_ok {
                    out.oracle_fail(
                        "a push that selected its reservoir before complete drains ran is lost, duplicated or mis-counted",
                        &format!(
                            "cap=8; {} values pushed; T: push(99.0) parked at reservoir.push.selected; main: {} complete consume(s); T resumes; {} more pushes; 4 more consumes. drains (values, rate) = {:?}; expected every one of {:?} exactly once and all rates 1.0",
                            prefill, j, after, drains, expected
                        ),
                    );
                }
            }
        }
    }
}

// ---------------------------------------------------------------------------------------------
// stream E: pushers and consumers under a token-passing scheduler, replayed on Model/ReservoirConc

#[derive(Clone, Copy, PartialEq, Debug)]
enum St {
    Running,
    Parked(&'static str),
    Finished(bool),
}

struct CtlSt {
    status: Vec<St>,
    turn: Option<usize>,
}

struct Ctl {
    st: Mutex<CtlSt>,
    cv: Condvar,
}

thread_local! {
    static ME: RefCell<Option<(Arc<Ctl>, usize)>> = RefCell::new(None);
}

/// yield point of a managed thread (threads that are not managed pass through)
fn mpoint(id: &'static str) {
    let me = ME.with(|m| m.borrow().clone());
    if let Some((c, t)) = me {
        c.park(t, id);
    }
}

fn sched_fatal(why: &str) -> ! {
    eprintln!("C16 harness: scheduler: {}", why);
    std::process::exit(3);
}

impl Ctl {
    fn park(&self, t: usize, id: &'static str) {
        let mut st = self.st.lock().unwrap();
        st.status[t] = St::Parked(id);
        self.cv.notify_all();
        while st.turn != Some(t) {
            st = self.cv.wait(st).unwrap();
        }
        st.turn = None;
        st.status[t] = St::Running;
    }
    /// lets thread `t` run up to its next point (or its end); returns where it stopped
    fn grant(&self, t: usize) -> St {
        let mut st = self.st.lock().unwrap();
        assert!(matches!(st.status[t], St::Parked(_)));
        st.status[t] = St::Running;
        st.turn = Some(t);
        self.cv.notify_all();
        let t0 = std::time::Instant::now();
        while st.status[t] == St::Running || st.turn.is_some() {
            let (g, _) = self.cv.wait_timeout(st, std::time::Duration::from_millis(500)).unwrap();
            st = g;
            if t0.elapsed().as_secs() > 30 {
                sched_fatal("a granted thread did not reach its next yield point within 30 s");
            }
        }
        st.status[t]
    }
    fn wait_settled(&self) -> Vec<St> {
        let mut st = self.st.lock().unwrap();
        let t0 = std::time::Instant::now();
        while st.status.iter().any(|x| *x == St::Running) {
            let (g, _) = self.cv.wait_timeout(st, std::time::Duration::from_millis(500)).unwrap();
            st = g;
            if t0.elapsed().as_secs() > 30 {
                sched_fatal("threads did not reach their first yield point within 30 s");
            }
        }
        st.status.clone()
    }
}

#[derive(Clone, Copy, Debug, PartialEq)]
enum TOp {
    Push(u64, usize),
    Consume,
    ConsumeForget,
}

fn progs_tok(progs: &[Vec<TOp>]) -> String {
    progs
        .iter()
        .map(|p| {
            list(p.iter().map(|o| match o {
                TOp::Push(b, raw) => format!("p{:016x}:{}", b, raw),
                TOp::Consume => "c".to_string(),
                TOp::ConsumeForget => "f".to_string(),
            }))
        })
        .collect::<Vec<_>>()
        .join("/")
}

#[derive(Clone)]
struct DrainSeen {
    tid: usize,
    len: usize,
    rate: f64,
    vals: Vec<u64>,
}

impl std::fmt::Debug for DrainSeen {
    fn fmt(&self, f: &mut std::fmt::Formatter<'_>) -> std::fmt::Result {
        write!(f, "(thread {} len {} rate {:?} values {:?})", self.tid, self.len, self.rate, self.vals.iter().map(|b| f64::from_bits(*b)).collect::<Vec<f64>>())
    }
}

fn drain_tok(d: &DrainSeen) -> String {
    let vals = if d.vals.is_empty() { "-".to_string() } else { d.vals.iter().map(|b| format!("{:016x}", b)).collect::<Vec<_>>().join("+") };
    format!("{}:{}:{}", d.len, f64bits(d.rate), vals)
}

#[derive(Clone, Debug)]
struct PushRec {
    tid: usize,
    bits: u64,
    side: bool,
    t_claim: Option<usize>,
    t_store: Option<usize>,
}

#[derive(Clone, Debug)]
struct ConsRec {
    side: bool,
    t_load: usize,
    t_drop: Option<usize>,
}

struct ConcRun {
    /// granted thread ids
    taken: Vec<usize>,
    /// runnable set at each grant
    choices: Vec<Vec<usize>>,
    labels: String,
    asked: Vec<Vec<Option<usize>>>,
    drains: Vec<DrainSeen>,
    flush: Vec<DrainSeen>,
    panicked: Vec<usize>,
    pushes: Vec<PushRec>,
    conses: Vec<ConsRec>,
    has_forget: bool,
}

fn consume_managed(res: &AtomicSamplingReservoir, tid: usize, forget: bool, sink: &Mutex<Vec<DrainSeen>>) {
    res.consume(|mut drain| {
        let len = drain.len();
        let rate = drain.sample_rate();
        let mut vals = vec![];
        loop {
            mpoint("c16.drain.step");
            match drain.next() {
                Some(v) => vals.push(v.to_bits()),
                None => break,
            }
        }
        sink.lock().unwrap().push(DrainSeen { tid, len, rate, vals });
        if forget {
            std::mem::forget(drain);
        }
    });
}

/// runs `progs` on a fresh reservoir under `schedule` (ids that cannot move are skipped; afterwards lowest id
/// first), then two sequential drains
fn run_conc(cap: usize, progs: &[Vec<TOp>], schedule: &[usize]) -> ConcRun {
    let n = progs.len();
    let res = Arc::new(AtomicSamplingReservoir::new(cap));
    let ctl = Arc::new(Ctl { st: Mutex::new(CtlSt { status: vec![St::Running; n], turn: None }), cv: Condvar::new() });
    let sink: Arc<Mutex<Vec<DrainSeen>>> = Arc::new(Mutex::new(vec![]));
    let mut handles = vec![];
    for (t, prog) in progs.iter().enumerate() {
        let (res, ctl, sink, prog) = (res.clone(), ctl.clone(), sink.clone(), prog.clone());
        handles.push(std::thread::spawn(move || {
            ME.with(|m| *m.borrow_mut() = Some((ctl.clone(), t)));
            verif::RNG_OVERRIDE.with(|o| o.set(Some(scripted)));
            QUIET_PANIC.with(|q| q.set(true));
            let mut asked: Vec<Option<usize>> = vec![];
            let r = catch_unwind(AssertUnwindSafe(|| {
                for op in &prog {
                    mpoint("c16.op");
                    match *op {
                        TOp::Push(bits, raw) => {
                            RAW.with(|r| r.set(raw));
                            ASKED.with(|a| a.borrow_mut().clear());
                            res.push(f64::from_bits(bits));
                            asked.push(ASKED.with(|a| a.borrow().first().copied()));
                        }
                        TOp::Consume => consume_managed(&res, t, false, &sink),
                        TOp::ConsumeForget => consume_managed(&res, t, true, &sink),
                    }
                }
            }));
            ME.with(|m| *m.borrow_mut() = None);
            let mut st = ctl.st.lock().unwrap();
            st.status[t] = St::Finished(r.is_err());
            ctl.cv.notify_all();
            drop(st);
            asked
        }));
    }
    let mut status = ctl.wait_settled();
    let mut opi = vec![0usize; n];
    let mut lock: Option<usize> = None;
    let mut up = true; // shadow of use_primary
    let mut run = ConcRun {
        taken: vec![], choices: vec![], labels: String::new(), asked: vec![], drains: vec![], flush: vec![], panicked: vec![],
        pushes: vec![], conses: vec![], has_forget: progs.iter().any(|p| p.contains(&TOp::ConsumeForget)),
    };
    let mut cur_push: Vec<Option<usize>> = vec![None; n];
    let mut cur_cons: Vec<Option<usize>> = vec![None; n];
    let mut pos = 0;
    loop {
        let runnable: Vec<usize> = (0..n)
            .filter(|&t| match status[t] {
                St::Parked("c16.op") => !(lock.is_some() && matches!(progs[t][opi[t]], TOp::Consume | TOp::ConsumeForget)),
                St::Parked(_) => true,
                _ => false,
            })
            .collect();
        if runnable.is_empty() {
            break;
        }
        let mut pick = None;
        while pos < schedule.len() {
            let c = schedule[pos];
            pos += 1;
            if runnable.contains(&c) {
                pick = Some(c);
                break;
            }
        }
        let t = pick.unwrap_or(runnable[0]);
        let now = run.taken.len();
        let from = status[t];
        let to = ctl.grant(t);
        status[t] = to;
        run.taken.push(t);
        run.choices.push(runnable);
        run.labels.push(match to {
            St::Parked("reservoir.push.selected") => 's',
            St::Parked("reservoir.push.claimed") => 'c',
            St::Parked("c16.drain.step") => 'r',
            St::Parked("c16.op") => 'o',
            St::Parked(_) => '?',
            St::Finished(false) => 'f',
            St::Finished(true) => 'p',
            St::Running => '!',
        });
        // shadow bookkeeping for the trace-based oracles
        match from {
            St::Parked("c16.op") => match progs[t][opi[t]] {
                TOp::Push(bits, _) => {
                    cur_push[t] = Some(run.pushes.len());
                    run.pushes.push(PushRec { tid: t, bits, side: up, t_claim: None, t_store: None });
                }
                _ => {
                    cur_cons[t] = Some(run.conses.len());
                    run.conses.push(ConsRec { side: up, t_load: now, t_drop: None });
                    up = !up;
                    lock = Some(t);
                }
            },
            St::Parked("reservoir.push.selected") => run.pushes[cur_push[t].unwrap()].t_claim = Some(now),
            St::Parked("reservoir.push.claimed") => {
                run.pushes[cur_push[t].unwrap()].t_store = Some(now);
                opi[t] += 1;
            }
            St::Parked("c16.drain.step") => {
                if !matches!(to, St::Parked("c16.drain.step")) {
                    run.conses[cur_cons[t].unwrap()].t_drop = Some(now);
                    lock = None;
                    opi[t] += 1;
                }
            }
            _ => {}
        }
        if let St::Finished(true) = to {
            run.panicked.push(t);
            if lock == Some(t) {
                lock = None;
            }
        }
    }
    for h in handles {
        run.asked.push(h.join().unwrap_or_default());
    }
    run.drains = sink.lock().unwrap().clone();
    // two sequential drains after everything has finished (skipped when the mutex was poisoned by a panic)
    let fl: Mutex<Vec<DrainSeen>> = Mutex::new(vec![]);
    QUIET_PANIC.with(|q| q.set(true));
    let _ = catch_unwind(AssertUnwindSafe(|| {
        consume_managed(&res, 99, false, &fl);
        consume_managed(&res, 99, false, &fl);
    }));
    QUIET_PANIC.with(|q| q.set(false));
    run.flush = fl.lock().unwrap().clone();
    run
}

fn conc_answer(r: &ConcRun) -> String {
    let asked = r
        .asked
        .iter()
        .map(|a| list(a.iter().map(|o| o.map(|u| u.to_string()).unwrap_or("~".into()))))
        .collect::<Vec<_>>()
        .join("/");
    let drains = list(r.drains.iter().map(|d| format!("{}:{}", d.tid, drain_tok(d))));
    let flush = r.flush.iter().map(drain_tok).collect::<Vec<_>>().join(",");
    format!("trace={} asked={} drains={} flush={}", r.labels, asked, drains, flush)
}

/// the number of pushes a drain says were made, from `len` and `sample_rate()`; Err = inconsistent
fn unsampled_of(cap: usize, d: &DrainSeen) -> Result<Option<usize>, String> {
    if d.len > cap {
        return Err(format!("len {} exceeds the capacity {}", d.len, cap));
    }
    if d.vals.len() != d.len {
        return Err(format!("{} values yielded, len() was {}", d.vals.len(), d.len));
    }
    if d.rate.to_bits() == 1.0f64.to_bits() {
        return Ok(Some(d.len));
    }
    if d.len != cap {
        return Err(format!("rate {:?} below 1 although only {} of {} slots are yielded", d.rate, d.len, cap));
    }
    if cap == 0 {
        return if d.rate.to_bits() == 0.0f64.to_bits() { Ok(None) } else { Err(format!("capacity 0 with rate {:?}", d.rate)) };
    }
    let u = (d.len as f64 / d.rate).round();
    if !(u.is_finite() && u > d.len as f64 && (d.len as f64 / u).to_bits() == d.rate.to_bits()) {
        return Err(format!("rate {:?} is not len/pushed for any pushed count > len = {}", d.rate, d.len));
    }
    Ok(Some(u as usize))
}

/// oracles on one concurrent run, from the trace and what the real code returned (no model involved).
/// `report_known`: also report the known finding when the run shows exactly the loss it describes.
fn conc_oracles(out: &mut Out, cap: usize, progs: &[Vec<TOp>], r: &ConcRun, report_known: bool) {
    let ctx = format!("cap={} programs={} executed schedule={}", cap, progs_tok(progs), crate::sched::sched_tok(&r.taken));
    if !r.panicked.is_empty() {
        out.count("conc: runs with a panic");
        out.oracle_fail("push panicked", &format!("{}: thread(s) {:?} panicked (trace {}); drains {:?}", ctx, r.panicked, r.labels, r.drains));
        return;
    }
    if r.has_forget {
        return;
    }
    let all: Vec<&DrainSeen> = r.drains.iter().chain(r.flush.iter()).collect();
    let mut sum_u = Some(0usize);
    let mut sampled = false;
    for d in &all {
        match unsampled_of(cap, d) {
            Err(why) => {
                out.oracle_fail("drain length / sample rate inconsistent", &format!("{}: {} (drain {:?})", ctx, why, d));
                return;
            }
            Ok(None) => sum_u = None,
            Ok(Some(u)) => {
                if u > d.len {
                    sampled = true;
                }
                sum_u = sum_u.map(|s| s + u);
            }
        }
    }
    let end = usize::MAX;
    // a push whose claim fell between a drain's count.load of its side and that drain's reset
    let late: Vec<&PushRec> = r
        .pushes
        .iter()
        .filter(|p| r.conses.iter().any(|k| k.side == p.side && p.t_claim.map_or(false, |c| k.t_load < c && c < k.t_drop.unwrap_or(end))))
        .collect();
    // a push that had claimed but not stored when a drain of its side loaded the count
    let inflight_at_load = r.pushes.iter().any(|p| {
        r.conses.iter().any(|k| k.side == p.side && p.t_claim.map_or(false, |c| c < k.t_load) && p.t_store.map_or(true, |s| s > k.t_load))
    });
    // any overlap of a push's claim..store with a drain window of its side
    let overlap = r.pushes.iter().any(|p| {
        r.conses.iter().any(|k| k.side == p.side && p.t_claim.map_or(false, |c| c < k.t_drop.unwrap_or(end)) && p.t_store.map_or(true, |s| s > k.t_load))
    });
    let n_push = r.pushes.len();
    if !late.is_empty() {
        out.count("conc: runs with a push claiming between a drain's count.load and its reset (K-C16-straddle)");
    }
    if inflight_at_load {
        out.count("conc: runs with a push between claim and store at a drain's count.load (K-C16-straddle)");
    }
    if !overlap {
        out.count("conc: runs without any push/drain overlap");
    }
    // (1) the counts the drains report: exact
    if let Some(su) = sum_u {
        if su + late.len() != n_push {
            out.oracle_fail(
                "the drains' pushed-counts do not add up to the pushes made",
                &format!(
                    "{}: {} pushes completed, {} of them claimed their index between a drain's count.load and its reset (the only pushes the code drops uncounted); the drains report {} pushed in total (expected {}). drains (tid,len,rate,vals) = {:?} then {:?}",
                    ctx, n_push, late.len(), su, n_push - late.len(), r.drains, r.flush
                ),
            );
        } else if !late.is_empty() && report_known {
            out.oracle_fail(
                "K-C16-straddle: a completed push is neither yielded nor counted by any drain",
                &format!("{}: {} pushes, the drains account for {}; lost: {:?}", ctx, n_push, su, late.iter().map(|p| format!("{:016x}", p.bits)).collect::<Vec<_>>()),
            );
        }
    }
    // (2) only fresh values
    let mut seen: Vec<u64> = vec![];
    let mut stale: Vec<String> = vec![];
    for d in &all {
        for b in &d.vals {
            let pushed = r.pushes.iter().any(|p| p.bits == *b);
            if !pushed || seen.contains(b) {
                stale.push(format!("{:016x} ({}) in the drain of thread {}", b, if pushed { "already yielded by an earlier drain" } else { "never pushed" }, d.tid));
            }
            seen.push(*b);
        }
    }
    if !stale.is_empty() {
        let detail = format!("{}: {}. drains = {:?} then {:?}", ctx, stale.join("; "), r.drains, r.flush);
        if inflight_at_load {
            if report_known {
                out.oracle_fail("K-C16-straddle: a drain overlapping a push that has claimed its slot but not stored yet yields the slot's old content", &detail);
            }
        } else {
            out.oracle_fail("drain yields a value not pushed since the previous drain (no push was between claim and store at any drain)", &detail);
        }
    }
    // (3) nothing overlaps, nothing sampled out: every pushed value comes out exactly once
    if !overlap && !sampled && stale.is_empty() && sum_u.is_some() {
        let mut got = seen.clone();
        let mut exp: Vec<u64> = r.pushes.iter().map(|p| p.bits).collect();
        got.sort();
        exp.sort();
        if got != exp {
            out.oracle_fail(
                "a push that overlaps no drain is lost",
                &format!("{}: yielded {:x?}, pushed {:x?}; drains = {:?} then {:?}", ctx, got, exp, r.drains, r.flush),
            );
        }
    }
}

fn conc_case(out: &mut Out, tag: &str, cap: usize, progs: &[Vec<TOp>], schedule: &[usize], report_known: bool) -> ConcRun {
    out.case(tag);
    let r = run_conc(cap, progs, schedule);
    out.op(&format!("reservoir crun {} {} {}", cap, progs_tok(progs), crate::sched::sched_tok(&r.taken)), &conc_answer(&r));
    out.count("conc: runs");
    if r.pushes.len() > cap && cap > 0 {
        out.nontrivial();
    }
    conc_oracles(out, cap, progs, &r, report_known);
    r
}

fn pv(t: usize, k: usize) -> u64 {
    (((t + 1) * 100 + k) as f64).to_bits()
}

fn conc_corpus(out: &mut Out) {
    let p = |t: usize, k: usize, raw: usize| TOp::Push(pv(t, k), raw);
    let c = TOp::Consume;
    // K-C16-straddle witness 1: push selected the primary side, claims after the drain's count.load
    conc_case(out, "conc corpus straddle-1 (late claim)", 4, &[vec![p(0, 0, 0), p(0, 1, 0)], vec![p(1, 0, 0)], vec![c, c, c]],
        &[0, 0, 0, 0, 0, 0, 1, 2, 1, 1, 2, 2, 2], true);
    // K-C16-straddle witness 2: push claimed slot 0, drain reads it before the store
    conc_case(out, "conc corpus straddle-2 (claimed, not stored)", 4, &[vec![p(0, 0, 0)], vec![c]], &[0, 0, 1, 1, 1, 0], true);
    // stale content of an earlier cycle read through an in-flight claim
    conc_case(out, "conc corpus straddle-2b (stale value of an earlier cycle)", 2, &[vec![p(0, 0, 0), p(0, 1, 0)], vec![c, c, c]],
        &[0, 0, 0, 1, 1, 1, 1, 0, 0, 1, 1, 1, 0], true);
    // late claim, then two more cycles on both sides: the wiped push must not leave a residue
    for cap in [1usize, 2, 4] {
        conc_case(out, &format!("conc corpus late claim + further cycles cap={}", cap), cap,
            &[vec![p(0, 0, 0), p(0, 1, 1)], vec![p(1, 0, 0)], vec![c, c, c], vec![p(3, 0, 0), p(3, 1, 0), p(3, 2, 2)]],
            &[0, 0, 0, 0, 0, 0, 1, 2, 1, 1, 2, 2, 2, 3, 3, 3, 2, 2, 3, 3, 3, 2, 2, 2, 2, 3, 3, 3], false);
    }
    // a push parked after its claim at / over capacity (also capacity 0), resumed after the drain has completed
    for cap in [0usize, 1, 2] {
        let mut t0 = vec![];
        for k in 0..cap + 1 {
            t0.push(p(0, k, k));
        }
        let mut sched = vec![0; 3 * (cap + 1)];
        sched.extend([1, 1]); // select, claim (over capacity), parked before the replacement step
        sched.extend(vec![2; cap + 3]); // a complete consume
        sched.extend([1, 2, 2, 2]);
        conc_case(out, &format!("conc corpus over-capacity push resumed after a complete drain cap={}", cap), cap,
            &[t0, vec![p(1, 0, 0), p(1, 1, 1)], vec![c, c]], &sched, false);
    }
    // two consumers and two pushers
    conc_case(out, "conc corpus two consumers", 2, &[vec![p(0, 0, 0), p(0, 1, 1), p(0, 2, 2)], vec![p(1, 0, 3), p(1, 1, 0)], vec![c, c], vec![c]],
        &[0, 1, 0, 2, 3, 1, 0, 2, 2, 3, 0, 1, 1, 2, 3, 0, 0, 0, 2, 2, 1, 1, 3, 3], false);
    // a leaked Drain (mem::forget): the count is not reset
    conc_case(out, "conc corpus leaked drain", 2, &[vec![p(0, 0, 0), TOp::ConsumeForget, p(0, 1, 0), c, c]], &[], false);
}

fn conc_random(r: &mut Rng, out: &mut Out, i: usize) {
    let cap = *r.pick(&[0usize, 1, 1, 2, 2, 3, 4]);
    let npush = r.range(1, 3);
    let ncons = r.range(1, 2);
    let mut progs: Vec<Vec<TOp>> = vec![];
    for t in 0..npush {
        let k = r.range(1, 4);
        progs.push((0..k).map(|j| TOp::Push(pv(t, j), pick_raw(r, cap + j))).collect());
    }
    for _ in 0..ncons {
        let k = r.range(1, 3);
        progs.push(vec![TOp::Consume; k]);
    }
    if r.chance(1, 4) {
        // a thread that mixes both
        let t = progs.len();
        progs.push(vec![TOp::Push(pv(t, 0), r.below(4)), TOp::Consume, TOp::Push(pv(t, 1), r.below(4))]);
    }
    let n = progs.len();
    let mut sched = vec![];
    let steps: usize = progs.iter().map(|p| p.len() * 4).sum();
    while sched.len() < steps {
        let t = r.below(n);
        let burst = match r.below(4) {
            0 => 1,
            1 => 2,
            2 => 3,
            _ => r.range(1, 7),
        };
        for _ in 0..burst {
            sched.push(t);
        }
    }
    out.count(&format!("conc: cap={}", cap));
    out.count(&format!("conc: threads={}", n));
    conc_case(out, &format!("conc random i={}", i), cap, &progs, &sched, false);
}

/// every schedule of a small configuration on the real code, each replayed on the model
fn conc_exhaustive(out: &mut Out, cap: usize, progs: &[Vec<TOp>], limit: usize) {
    let mut prefix: Vec<usize> = vec![];
    let mut runs = 0usize;
    loop {
        let r = conc_case(out, &format!("conc exhaustive cap={} {} #{}", cap, progs_tok(progs), runs), cap, progs, &prefix, false);
        runs += 1;
        out.count("conc: schedules enumerated exhaustively");
        if runs >= limit {
            out.count("conc: exhaustive enumerations cut at the limit");
            return;
        }
        let mut i = r.taken.len();
        let mut next = None;
        while i > 0 {
            i -= 1;
            if let Some(alt) = r.choices[i].iter().copied().filter(|c| *c > r.taken[i]).min() {
                next = Some((i, alt));
                break;
            }
        }
        match next {
            None => {
                out.count("conc: exhaustive enumerations completed");
                return;
            }
            Some((i, alt)) => {
                prefix = r.taken[..i].to_vec();
                prefix.push(alt);
            }
        }
    }
}

// ---------------------------------------------------------------------------------------------
// stream E2: epochs of pushers (several pushing threads, no consumer thread): counts, "only pushed values, no push
// twice", and claim order vs store order (theorems conc_pushers_* / conc_retention_is_sequential_on_claim_order_partial)

/// one epoch of pushers under `schedule`, then the drain.  The run is replayed on the step machine (`crun`), checked by
/// the trace oracles, by the direct oracles below (no model), and read through the ghosts of the theorems (`pushers`):
/// claim order from the trace, "stores in claim order", and — when they are — the drain of SEQUENTIAL push over the
/// claim order must be the drain of the real code.
fn pushers_case(out: &mut Out, tag: &str, cap: usize, progs: &[Vec<TOp>], schedule: &[usize]) -> Option<(bool, Vec<u64>)> {
    pushers_case_run(out, tag, cap, progs, schedule).1
}

fn pushers_case_run(out: &mut Out, tag: &str, cap: usize, progs: &[Vec<TOp>], schedule: &[usize]) -> (ConcRun, Option<(bool, Vec<u64>)>) {
    let r = conc_case(out, tag, cap, progs, schedule, false);
    out.count("pushers: epochs");
    let ctx = format!("cap={} programs={} executed schedule={}", cap, progs_tok(progs), crate::sched::sched_tok(&r.taken));
    if !r.panicked.is_empty() || r.flush.len() != 2 {
        return (r, None); // reported by conc_oracles
    }
    let n: usize = progs.iter().map(|p| p.len()).sum();
    if r.pushes.len() != n || r.pushes.iter().any(|p| p.t_claim.is_none() || p.t_store.is_none()) {
        out.oracle_fail("pushers: a push did not complete", &format!("{}: trace {}", ctx, r.labels));
        return (r, None);
    }
    let mut by_claim: Vec<&PushRec> = r.pushes.iter().collect();
    by_claim.sort_by_key(|p| p.t_claim.unwrap());
    let inorder = by_claim.windows(2).all(|w| w[0].t_store.unwrap() < w[1].t_store.unwrap());
    let d = &r.flush[0];
    let all: Vec<u64> = r.pushes.iter().map(|p| p.bits).collect();
    // direct oracles: what conc_pushers_epoch_exact states, on the real drain
    match unsampled_of(cap, d) {
        Err(why) => out.oracle_fail("drain length / sample rate inconsistent", &format!("{}: {} (drain {:?})", ctx, why, d)),
        Ok(u) => {
            if let Some(u) = u {
                if u != n {
                    out.oracle_fail(
                        "pushers: the drain after concurrent pushers does not report the number of pushes made",
                        &format!("{}: {} pushes by {} threads completed, no drain in flight; the drain reports {} (len {} rate {:?})", ctx, n, progs.len(), u, d.len, d.rate),
                    );
                }
            }
            if d.len != n.min(cap) {
                out.oracle_fail(
                    "pushers: the drain after concurrent pushers does not yield min(pushed, capacity) values",
                    &format!("{}: {} pushes, capacity {}: {} values yielded: {:?}", ctx, n, cap, d.len, d),
                );
            }
        }
    }
    if !is_sub_multiset(&d.vals, &all) {
        out.oracle_fail(
            "pushers: the drain after concurrent pushers yields a value that was not pushed, or one push twice",
            &format!("{}: pushed {:x?}, yielded {:x?}", ctx, all, d.vals),
        );
    }
    if n <= cap {
        let (mut a, mut b) = (d.vals.clone(), all.clone());
        a.sort();
        b.sort();
        if a != b {
            out.oracle_fail("pushers: not all values come out although no more than capacity were pushed", &format!("{}: pushed {:x?}, yielded {:x?}", ctx, all, d.vals));
        }
        // slot order is claim order
        let claim_vals: Vec<u64> = by_claim.iter().map(|p| p.bits).collect();
        if d.vals != claim_vals {
            out.oracle_fail("pushers: below capacity the drain does not yield the values in claim order", &format!("{}: claim order {:x?}, yielded {:x?}", ctx, claim_vals, d.vals));
        }
    }
    out.count(if inorder { "pushers: epochs with all stores in claim order" } else { "pushers: epochs with a store overtaking an earlier claim" });
    if n > cap && cap > 0 {
        out.count(if inorder { "pushers: sampled epochs, stores in claim order" } else { "pushers: sampled epochs, a store overtakes an earlier claim" });
    }
    let log = list(by_claim.iter().map(|p| format!("{:016x}", p.bits)));
    let seq = if inorder { drain_tok(d) } else { "-".to_string() };
    out.op(
        &format!("reservoir pushers {} {} {}", cap, progs_tok(progs), crate::sched::sched_tok(&r.taken)),
        &format!("pushonly=1 done=1 inorder={} log={} n={} drain={} seq={}", inorder as u8, log, n, drain_tok(d), seq),
    );
    let res = Some((inorder, d.vals.clone()));
    (r, res)
}

/// schedule for `lens[t]` pushes per thread (3 grants per push).  mode 0: random interleaving constrained so that a
/// store never overtakes an earlier claim; mode 1: unconstrained bursts; mode 2: one thread claims early and stores
/// last (late store).
fn pushers_schedule(r: &mut Rng, lens: &[usize], mode: usize) -> Vec<usize> {
    let n = lens.len();
    let mut left: Vec<usize> = lens.to_vec();
    let mut pc = vec![0usize; n]; // 0 idle, 1 selected, 2 claimed
    let mut idx = vec![0usize; n];
    let mut count = 0usize;
    let mut sched = vec![];
    let late = r.below(n);
    let mut burst: Option<(usize, usize)> = None;
    loop {
        let live: Vec<usize> = (0..n).filter(|&t| left[t] > 0).collect();
        if live.is_empty() {
            break;
        }
        let mut t = match burst {
            Some((b, k)) if k > 0 && left[b] > 0 => {
                burst = Some((b, k - 1));
                b
            }
            _ => {
                let b = *r.pick(&live);
                burst = Some((b, r.below(4)));
                b
            }
        };
        if mode == 2 && t == late && pc[t] == 2 && live.len() > 1 {
            // the late thread keeps its claim pending while anybody else can move
            let others: Vec<usize> = live.iter().copied().filter(|&x| x != late).collect();
            t = *r.pick(&others);
        }
        if mode == 0 && pc[t] == 2 {
            // stores in claim order: the smallest pending claim goes first
            t = (0..n).filter(|&x| left[x] > 0 && pc[x] == 2).min_by_key(|&x| idx[x]).unwrap();
        }
        sched.push(t);
        match pc[t] {
            0 => pc[t] = 1,
            1 => {
                pc[t] = 2;
                idx[t] = count;
                count += 1;
            }
            _ => {
                pc[t] = 0;
                left[t] -= 1;
            }
        }
    }
    sched
}

fn pushers_random(r: &mut Rng, out: &mut Out, i: usize) {
    let cap = *r.pick(&[0usize, 1, 1, 2, 2, 3, 4]);
    let nth = r.range(2, 4);
    let mut progs: Vec<Vec<TOp>> = vec![];
    let mut lens = vec![];
    let mut g = 0usize;
    for t in 0..nth {
        let k = r.range(1, 4);
        lens.push(k);
        progs.push((0..k).map(|j| { g += 1; TOp::Push(pv(t, j), pick_raw(r, g)) }).collect());
    }
    let mode = i % 3;
    let sched = pushers_schedule(r, &lens, mode);
    out.count(&format!("pushers: cap={}", cap));
    out.count(&format!("pushers: threads={}", nth));
    out.count(&format!("pushers: schedule mode={}", ["stores in claim order", "free", "late store"][mode]));
    if let Some((inorder, _)) = pushers_case(out, &format!("pushers random i={}", i), cap, &progs, &sched) {
        if mode == 0 && !inorder {
            out.oracle_fail("pushers: harness: a schedule built to keep the stores in claim order did not", &format!("cap={} programs={} schedule={:?}", cap, progs_tok(&progs), sched));
        }
    }
}

fn pushers_corpus(out: &mut Out) {
    let p = |t: usize, k: usize, raw: usize| TOp::Push(pv(t, k), raw);
    // theorem conc_late_store_breaks_uniformity on the real code: capacity 1, thread 0 claims index 0 and is delayed,
    // thread 1 claims index 1, draws (either choice) and stores, then thread 0 stores: thread 0's value is retained for
    // BOTH choices; with the stores in claim order the choice decides (0: position 1, 1: position 0).
    let mut late = vec![];
    let mut ord = vec![];
    for c in [0usize, 1] {
        let progs = [vec![p(0, 0, 0)], vec![p(1, 0, c)]];
        if let Some((io, vals)) = pushers_case(out, &format!("pushers corpus late store cap=1 choice={}", c), 1, &progs, &[0, 0, 1, 1, 1, 0]) {
            late.push((io, vals));
        }
        if let Some((io, vals)) = pushers_case(out, &format!("pushers corpus stores in claim order cap=1 choice={}", c), 1, &progs, &[0, 0, 1, 1, 0, 1]) {
            ord.push((io, vals));
        }
    }
    if late.len() == 2 && ord.len() == 2 {
        let late_same = late.iter().all(|(io, v)| !*io && v == &vec![pv(0, 0)]);
        let ord_split = ord[0] == (true, vec![pv(1, 0)]) && ord[1] == (true, vec![pv(0, 0)]);
        out.count(if late_same {
            "pushers: late-store witness reproduced on the real code (claim position 0 retained for both choices, position 1 never)"
        } else {
            "pushers: late-store witness NOT reproduced on the real code"
        });
        if late_same {
            // the property's uniformity clause, read over schedules with concurrent pushers, fails on this schedule:
            // known finding K-C16-late-store (Lean: C16.conc_late_store_breaks_uniformity); counts stay exact
            out.oracle_fail(
                "K-C16-late-store: with two concurrent pushers and the first claim's slot store delayed past the second push, claim position 0 is retained whatever the random choice and position 1 never (capacity 1, n = 2: each should be retained with probability 1/2)",
                &format!("schedule 0.0.1.1.1.0, choices 0 and 1 of the second push: drains {:x?}; with the stores in claim order the choice decides: {:x?}", late, ord),
            );
        }
        if !ord_split {
            out.oracle_fail(
                "pushers: two pushers with stores in claim order: the retained claim position does not follow the random choice",
                &format!("cap=1, claims 0 then 1; choice 0 must retain claim position 1, choice 1 position 0; got {:x?}", ord),
            );
        }
    }
    // a replacement store landing BEFORE the fill store of the same slot: cap 2, thread 0 claims index 0 and is delayed,
    // thread 1 fills slot 1, thread 2 claims index 2 and replaces slot 0 (choice 0), then thread 0's fill store lands
    pushers_case(out, "pushers corpus replacement before fill cap=2", 2, &[vec![p(0, 0, 0)], vec![p(1, 0, 0)], vec![p(2, 0, 0)]], &[0, 0, 1, 1, 1, 2, 2, 2, 0]);
    // two replacement stores of the same slot out of claim order (cap 1, three pushers)
    pushers_case(out, "pushers corpus two replacements swapped cap=1", 1, &[vec![p(0, 0, 0)], vec![p(1, 0, 0)], vec![p(2, 0, 0)]], &[0, 0, 0, 1, 1, 2, 2, 2, 1]);
    // capacity 0 and four pushers
    pushers_case(out, "pushers corpus cap=0 four pushers", 0, &[vec![p(0, 0, 0)], vec![p(1, 0, 1)], vec![p(2, 0, 2)], vec![p(3, 0, 3)]], &[0, 1, 2, 3, 3, 2, 1, 0, 0, 1, 2, 3]);
}

/// every schedule of a small set of pushers, each replayed and read through the ghosts
fn pushers_exhaustive(out: &mut Out, cap: usize, progs: &[Vec<TOp>], limit: usize) {
    let mut prefix: Vec<usize> = vec![];
    let mut runs = 0usize;
    loop {
        let tag = format!("pushers exhaustive cap={} {} #{}", cap, progs_tok(progs), runs);
        let (r, _) = pushers_case_run(out, &tag, cap, progs, &prefix);
        let taken = r.taken.clone();
        let choices = r.choices.clone();
        runs += 1;
        out.count("pushers: schedules enumerated exhaustively");
        if runs >= limit {
            out.count("pushers: exhaustive enumerations cut at the limit");
            return;
        }
        let mut i = taken.len();
        let mut next = None;
        while i > 0 {
            i -= 1;
            if let Some(alt) = choices[i].iter().copied().filter(|c| *c > taken[i]).min() {
                next = Some((i, alt));
                break;
            }
        }
        match next {
            None => {
                out.count("pushers: exhaustive enumerations completed");
                return;
            }
            Some((i, alt)) => {
                prefix = taken[..i].to_vec();
                prefix.push(alt);
            }
        }
    }
}

// ---------------------------------------------------------------------------------------------
// stream F: probes without the scheduler

/// the `swap` mutex excludes a second consumer for as long as the first closure runs.  One-sided: on correct code
/// thread B can NEVER enter its closure while A is inside, however long we wait, so the wait only bounds how
/// reliably a missing exclusion is seen, never produces a false alarm.
fn exclusion_probe(out: &mut Out) {
    out.case("probe: two concurrent consume() callers");
    out.count("probes");
    let res = Arc::new(AtomicSamplingReservoir::new(4));
    res.push(1.0);
    let a_in = Arc::new(AtomicBool::new(false));
    let a_go = Arc::new(AtomicBool::new(false));
    let b_in = Arc::new(AtomicBool::new(false));
    let b_in_while_a = Arc::new(AtomicBool::new(false));
    let ha = {
        let (res, a_in, a_go) = (res.clone(), a_in.clone(), a_go.clone());
        std::thread::spawn(move || {
            res.consume(|drain| {
                a_in.store(true, SeqCst);
                wait_for(&a_go);
                a_in.store(false, SeqCst);
                drop(drain);
            })
        })
    };
    wait_for(&a_in);
    let hb = {
        let (res, a_in, b_in, bw) = (res.clone(), a_in.clone(), b_in.clone(), b_in_while_a.clone());
        std::thread::spawn(move || {
            res.consume(|_drain| {
                if a_in.load(SeqCst) {
                    bw.store(true, SeqCst);
                }
                b_in.store(true, SeqCst);
            })
        })
    };
    let t0 = std::time::Instant::now();
    while t0.elapsed().as_millis() < 150 && !b_in.load(SeqCst) {
        std::thread::yield_now();
    }
    let early = b_in.load(SeqCst);
    a_go.store(true, SeqCst);
    ha.join().unwrap();
    hb.join().unwrap();
    if early || b_in_while_a.load(SeqCst) {
        out.oracle_fail(
            "two consume() closures ran at the same time (the swap lock does not exclude a second consumer)",
            "cap=4; thread A inside its consume closure (parked); thread B calls consume(): its closure ran before A's returned",
        );
    }
    if !b_in.load(SeqCst) {
        out.oracle_fail("a second consume() never ran after the first returned", "cap=4");
    }
}

/// a closure that panics: the Drain is dropped during unwinding (count reset); pushes must keep working
fn closure_panic_probe(out: &mut Out) {
    out.case("probe: consume closure panics");
    out.count("probes");
    let res = AtomicSamplingReservoir::new(2);
    res.push(1.0);
    QUIET_PANIC.with(|q| q.set(true));
    let r1 = catch_unwind(AssertUnwindSafe(|| res.consume(|_d| panic!("closure"))));
    let r2 = catch_unwind(AssertUnwindSafe(|| {
        for i in 0..5 {
            res.push(10.0 + i as f64);
        }
        res.is_empty()
    }));
    let r3 = catch_unwind(AssertUnwindSafe(|| {
        let mut n = 0;
        res.consume(|d| n = d.len());
        n
    }));
    QUIET_PANIC.with(|q| q.set(false));
    assert!(r1.is_err());
    match r2 {
        Err(_) => out.oracle_fail("push panicked", "cap=2: push/is_empty after a consume() whose closure panicked"),
        Ok(true) => out.oracle_fail("is_empty() is true after a push", "cap=2: after a consume() whose closure panicked"),
        Ok(false) => {}
    }
    out.count(if r3.is_err() { "observation: consume() after a panicking closure panics (swap mutex poisoned)" } else { "observation: consume() after a panicking closure works" });
}

/// several free-running pushers against a consumer, real generator.  Only what holds under ANY interleaving of the
/// real code is asserted: no panic, len ≤ cap, rate consistent, values are pushed values or 0.0, and the drains never
/// report more pushes than were made.
fn stress_probe(out: &mut Out, cap: usize, pushers: usize, per: usize) {
    out.case(&format!("probe: stress cap={} pushers={} pushes each={}", cap, pushers, per));
    out.count("probes");
    let res = Arc::new(AtomicSamplingReservoir::new(cap));
    let done = Arc::new(AtomicUsize::new(0));
    let mut hs = vec![];
    for t in 0..pushers {
        let (res, done) = (res.clone(), done.clone());
        hs.push(std::thread::spawn(move || {
            QUIET_PANIC.with(|q| q.set(true));
            let r = catch_unwind(AssertUnwindSafe(|| {
                for k in 0..per {
                    res.push((t * per + k + 1) as f64);
                }
            }));
            done.fetch_add(1, SeqCst);
            r.is_ok()
        }));
    }
    let total = pushers * per;
    let mut bad: Option<String> = None;
    let mut sum_u = 0usize;
    let mut drains = 0usize;
    let mut one = |bad: &mut Option<String>, sum_u: &mut usize| {
        let mut d = DrainSeen { tid: 0, len: 0, rate: 0.0, vals: vec![] };
        res.consume(|drain| {
            d.len = drain.len();
            d.rate = drain.sample_rate();
            d.vals = drain.map(|v| v.to_bits()).collect();
        });
        match unsampled_of(cap, &d) {
            Err(why) => *bad = Some(format!("{} ({:?})", why, d)),
            Ok(Some(u)) => *sum_u += u,
            Ok(None) => {}
        }
        for b in &d.vals {
            let v = f64::from_bits(*b);
            if !(v == 0.0 || (v >= 1.0 && v <= total as f64 && v.fract() == 0.0)) {
                *bad = Some(format!("yielded {:?}, which no thread pushed", v));
            }
        }
    };
    while done.load(SeqCst) < pushers {
        one(&mut bad, &mut sum_u);
        drains += 1;
    }
    let ok = hs.into_iter().map(|h| h.join().unwrap_or(false)).all(|x| x);
    one(&mut bad, &mut sum_u);
    one(&mut bad, &mut sum_u);
    out.count_n("stress: drains overlapping free-running pushers", drains as u64);
    if !ok {
        out.oracle_fail("push panicked", &format!("cap={} {} free-running pushers against a consumer (real generator)", cap, pushers));
    } else if let Some(why) = bad {
        out.oracle_fail("drain length / sample rate inconsistent", &format!("cap={} stress: {}", cap, why));
    } else if cap > 0 && sum_u > total {
        out.oracle_fail(
            "the drains' pushed-counts do not add up to the pushes made",
            &format!("cap={} stress: {} pushes were made, the drains report {} (more than were ever pushed)", cap, total, sum_u),
        );
    } else {
        out.nontrivial();
    }
}

/// the per-thread generators must not be copies of each other (nor restart identically)
fn generator_independence_probe(out: &mut Out) {
    out.case("probe: generators of different threads / successive cycles are not identical");
    out.count("probes");
    let trial = || -> Vec<Vec<u64>> {
        let res = AtomicSamplingReservoir::new(4);
        let mut kept = vec![];
        for _ in 0..24 {
            for pos in 0..64 {
                res.push(pos as f64 + 1.0);
            }
            res.consume(|d| kept.push(d.map(|v| v.to_bits()).collect::<Vec<u64>>()));
        }
        kept
    };
    let a = std::thread::spawn(trial).join().unwrap();
    let b = std::thread::spawn(trial).join().unwrap();
    let c = trial();
    // 24 cycles of cap 4 out of 64: two independent generators agree on ALL of them with probability < 1e-100
    if a == b || a == c || b == c {
        out.oracle_fail(
            "retention frequency differs from capacity/n (real generator)",
            "cap=4 n=64, 24 cycles on three threads: two threads retained exactly the same positions in every cycle (generators are copies of each other)",
        );
    }
    if c.windows(2).all(|w| w[0] == w[1]) {
        out.oracle_fail(
            "retention frequency differs from capacity/n (real generator)",
            "cap=4 n=64: 24 successive cycles retained exactly the same positions (generator restarts identically)",
        );
    }
}

/// real generator at stream lengths far beyond the capacity: retention per quarter of the stream
fn long_stream_probe(out: &mut Out, cap: usize, n: usize, trials: usize) {
    out.case(&format!("stat long stream cap={} n={} trials={}", cap, n, trials));
    out.count("statistical searches (real generator)");
    let res = AtomicSamplingReservoir::new(cap);
    let mut q = [0u64; 4];
    let mut foreign = 0u64;
    QUIET_PANIC.with(|q| q.set(true));
    let r = catch_unwind(AssertUnwindSafe(|| {
        for _ in 0..trials {
            for pos in 0..n {
                res.push(pos as f64);
            }
            res.consume(|drain| {
                let rate = drain.sample_rate();
                if drain.len() != cap || rate.to_bits() != (cap as f64 / n as f64).to_bits() {
                    foreign += 1;
                }
                for v in drain {
                    if v >= 0.0 && (v as usize) < n {
                        q[(v as usize) * 4 / n] += 1;
                    } else {
                        foreign += 1;
                    }
                }
            });
        }
    }));
    QUIET_PANIC.with(|q| q.set(false));
    if r.is_err() {
        out.oracle_fail("push panicked", &format!("cap={} n={} with the real generator", cap, n));
        return;
    }
    if foreign > 0 {
        out.oracle_fail("repeated push/drain cycles are not independent", &format!("cap={} n={} trials={}: {} wrong lengths/rates/values", cap, n, trials, foreign));
        return;
    }
    out.nontrivial();
    // per trial the number retained from one quarter lies in [0, cap]; Hoeffding with range cap, delta 1e-11
    let t = cap as f64 * ((trials as f64) * (2.0e11f64).ln() / 2.0).sqrt();
    let expect = trials as f64 * cap as f64 / 4.0;
    if q.iter().any(|c| (*c as f64 - expect).abs() > t) {
        out.oracle_fail(
            "retention frequency differs from capacity/n (real generator)",
            &format!("cap={} n={} trials={}: retained per quarter of the stream {:?}; expected {:.0} ± {:.0} each (Hoeffding, false alarm < 1e-11)", cap, n, trials, q, expect, t),
        );
    }
}

// ---------------------------------------------------------------------------------------------
// stream G: the DogStatsD sampled histogram (AtomicHistogram::Sampled → State::flush → payload)

fn dogstatsd_case(out: &mut Out, size: usize, n: usize, as_dist: bool, cycles: usize) {
    use metrics::Recorder;
    static META: metrics::Metadata<'static> = metrics::Metadata::new("mv", metrics::Level::INFO, None);
    out.case(&format!("dogstatsd sampled histogram size={} n={} dist={} cycles={}", size, n, as_dist, cycles));
    out.count("dogstatsd sampled-histogram flushes");
    let mut driver = metrics_exporter_dogstatsd::verif::StateDriver::new(false, true, size, as_dist, vec![], None);
    let rec = driver.recorder();
    let key = metrics::Key::from_name("h");
    let h = rec.register_histogram(&key, &META);
    let mut writer = metrics_exporter_dogstatsd::verif::Writer::new(8192, false);
    for cycle in 0..cycles {
        let base = (cycle * 100_000) as f64;
        for i in 0..n {
            h.record(base + i as f64 + 1.0);
        }
        let counts = driver.flush(&mut writer);
        let payloads = writer.drain();
        let ctx = format!("reservoir size {} (histogram_sampling=true), cycle {}: {} values recorded", size, cycle, n);
        let msgs = match crate::c10::parse_payloads(&payloads) {
            Ok(m) => m,
            Err(e) => {
                out.oracle_fail("dogstatsd sampled histogram: unparsable payload", &format!("{}: {}", ctx, e));
                return;
            }
        };
        let mut vals: Vec<f64> = vec![];
        let mut rates: Vec<Option<String>> = vec![];
        for m in &msgs {
            if m.name != "h" || m.ty != (if as_dist { "d" } else { "h" }) {
                out.oracle_fail("dogstatsd sampled histogram: unexpected message", &format!("{}: {:?}", ctx, m));
                return;
            }
            rates.push(m.rate.clone());
            vals.extend(m.values.iter().filter_map(|v| v.parse::<f64>().ok()));
        }
        let expect_len = n.min(size);
        if n == 0 {
            if !msgs.is_empty() {
                out.oracle_fail("dogstatsd sampled histogram: an empty histogram was flushed", &format!("{}: {:?}", ctx, msgs));
            }
            continue;
        }
        if vals.len() != expect_len {
            out.oracle_fail("drain length is not min(pushed, capacity)", &format!("{}: {} values in the payloads {:?}", ctx, vals.len(), msgs));
            continue;
        }
        if vals.iter().any(|v| !(*v > base && *v <= base + n as f64)) || (n <= size && vals != (0..n).map(|i| base + i as f64 + 1.0).collect::<Vec<_>>()) {
            out.oracle_fail("drain yields a value not pushed since the previous drain", &format!("{}: payload values {:?}", ctx, vals));
        }
        // the rate on the wire: absent or 1 when nothing was sampled out, else size/n
        let expect_rate = expect_len as f64 / n as f64;
        for r in &rates {
            let got = match r {
                None => 1.0,
                Some(s) => s.parse::<f64>().unwrap_or(f64::NAN),
            };
            if got.to_bits() != expect_rate.to_bits() {
                out.oracle_fail("sample rate is not yielded / pushed", &format!("{}: message carries @{:?}, expected {:?}", ctx, r, expect_rate));
                break;
            }
        }
        // telemetry: points = yielded / rate = recorded
        let pts = (expect_len as f64 / expect_rate) as u64;
        if counts.histogram_points != pts || counts.histogram_contexts != 1 {
            out.oracle_fail("dogstatsd sampled histogram: flush counters are not yielded / rate", &format!("{}: {:?}, expected histogram_points {}", ctx, counts, pts));
        }
        if n > size && size > 0 {
            out.nontrivial();
        }
    }
}


// ---------------------------------------------------------------------------------------------
// stream H (round 6): the `Drain` OBJECT read by arbitrary closure scripts (Lean: `DrainIt`, `reservoir consumes`)

#[derive(Clone, Debug)]
enum ItOp {
    Next,
    Nth(usize),
    Len,
    Rate,
    Hint,
    Collect, // by_ref().collect()
    Count,   // by_ref().count()
    Last,    // by_ref().last()
}

#[derive(Clone, Debug)]
enum ItFin {
    Drop,
    Count,
    Last,
    Collect(usize), // flavour: collect / fold / for_each / sum of positions is not usable for wild values
    Skip(usize),
}

fn vals_tok(v: &[u64]) -> String {
    if v.is_empty() {
        "-".into()
    } else {
        v.iter().map(|b| format!("{:016x}", b)).collect::<Vec<_>>().join("+")
    }
}

fn optv_tok(v: Option<f64>) -> String {
    match v {
        None => "~".into(),
        Some(x) => format!("{:016x}", x.to_bits()),
    }
}

struct ScriptSeen {
    outs: Vec<String>,
    fin: String,
    /// values handed to the closure, in order
    handed: Vec<u64>,
    /// model-free complaints found while running the script
    bad: Vec<String>,
}

/// one `consume` whose closure reads the Drain by `script`, then `fin` takes it by value
fn consume_script(res: &AtomicSamplingReservoir, script: &[ItOp], fin: &ItFin) -> ScriptSeen {
    let mut s = ScriptSeen { outs: vec![], fin: String::new(), handed: vec![], bad: vec![] };
    res.consume(|mut drain| {
        let len0 = drain.len();
        let rate0 = drain.sample_rate().to_bits();
        let mut gone = 0usize; // values handed out or skipped so far
        let mut exhausted = false;
        for (i, op) in script.iter().enumerate() {
            match op {
                ItOp::Next => {
                    let v = drain.next();
                    if exhausted && v.is_some() {
                        s.bad.push(format!("step {}: next() returned a value after the iterator had returned None", i));
                    }
                    match v {
                        Some(x) => {
                            s.handed.push(x.to_bits());
                            gone += 1;
                        }
                        None => exhausted = true,
                    }
                    s.outs.push(optv_tok(v));
                }
                ItOp::Nth(k) => {
                    let v = drain.nth(*k);
                    if exhausted && v.is_some() {
                        s.bad.push(format!("step {}: nth({}) returned a value after the iterator had returned None", i, k));
                    }
                    match v {
                        Some(x) => {
                            s.handed.push(x.to_bits());
                            gone += k + 1;
                        }
                        None => {
                            exhausted = true;
                            gone = len0;
                        }
                    }
                    s.outs.push(optv_tok(v));
                }
                ItOp::Len => {
                    let l = drain.len();
                    if l + gone != len0 {
                        s.bad.push(format!("step {}: len() = {} after {} of {} values were taken", i, l, gone, len0));
                    }
                    s.outs.push(l.to_string());
                }
                ItOp::Rate => {
                    let r = drain.sample_rate().to_bits();
                    if r != rate0 {
                        s.bad.push(format!("step {}: sample_rate() changed while reading ({:016x} -> {:016x})", i, rate0, r));
                    }
                    s.outs.push(format!("{:016x}", r));
                }
                ItOp::Hint => {
                    let (lo, hi) = drain.size_hint();
                    let left = len0 - gone.min(len0);
                    // the contract of Iterator::size_hint: lo <= remaining <= hi
                    if lo > left || hi.map(|h| h < left).unwrap_or(false) {
                        s.bad.push(format!("step {}: size_hint() = ({}, {:?}) but {} values remain", i, lo, hi, left));
                    }
                    s.outs.push(format!("{}:{}", lo, hi.map(|h| h.to_string()).unwrap_or("~".into())));
                }
                ItOp::Collect => {
                    let v: Vec<u64> = drain.by_ref().map(|x| x.to_bits()).collect();
                    if exhausted && !v.is_empty() {
                        s.bad.push(format!("step {}: a loop over the iterator yielded values after it had returned None", i));
                    }
                    gone += v.len();
                    exhausted = true;
                    s.outs.push(vals_tok(&v));
                    s.handed.extend(v);
                }
                ItOp::Count => {
                    let c = drain.by_ref().count();
                    if c + gone != len0 {
                        s.bad.push(format!("step {}: count() = {} after {} of {} values were taken", i, c, gone, len0));
                    }
                    gone += c;
                    exhausted = true;
                    s.outs.push(format!("#{}", c));
                }
                ItOp::Last => {
                    let l = drain.by_ref().last();
                    if let Some(x) = l {
                        s.handed.push(x.to_bits());
                    }
                    gone = len0;
                    exhausted = true;
                    s.outs.push(optv_tok(l));
                }
            }
        }
        let left = len0 - gone.min(len0);
        match fin {
            ItFin::Drop => {
                drop(drain);
                s.fin = "-".into();
            }
            ItFin::Count => {
                let c = drain.count();
                if c != left {
                    s.bad.push(format!("count() = {} but {} values remained", c, left));
                }
                s.fin = format!("#{}", c);
            }
            ItFin::Last => {
                let l = drain.last();
                if l.is_some() != (left > 0) {
                    s.bad.push(format!("last() = {:?} but {} values remained", l, left));
                }
                if let Some(x) = l {
                    s.handed.push(x.to_bits());
                }
                s.fin = optv_tok(l);
            }
            ItFin::Collect(flavour) => {
                let v: Vec<u64> = match flavour % 4 {
                    0 => drain.map(|x| x.to_bits()).collect(),
                    1 => drain.fold(Vec::new(), |mut a, x| {
                        a.push(x.to_bits());
                        a
                    }),
                    2 => {
                        let mut a = vec![];
                        drain.for_each(|x| a.push(x.to_bits()));
                        a
                    }
                    _ => {
                        let mut a = vec![];
                        for x in drain {
                            a.push(x.to_bits());
                        }
                        a
                    }
                };
                if v.len() != left {
                    s.bad.push(format!("a by-value loop yielded {} values but {} remained", v.len(), left));
                }
                s.fin = vals_tok(&v);
                s.handed.extend(v);
            }
            ItFin::Skip(k) => {
                let v: Vec<u64> = drain.skip(*k).map(|x| x.to_bits()).collect();
                if v.len() != left.saturating_sub(*k) {
                    s.bad.push(format!("skip({}) then a loop yielded {} values but {} remained", k, v.len(), left));
                }
                s.fin = vals_tok(&v);
                s.handed.extend(v);
            }
        }
    });
    s
}

fn script_tok(script: &[ItOp]) -> String {
    list(script.iter().map(|o| match o {
        ItOp::Next => "n".to_string(),
        ItOp::Nth(k) => format!("t{}", k),
        ItOp::Len => "l".into(),
        ItOp::Rate => "r".into(),
        ItOp::Hint => "h".into(),
        ItOp::Collect => "a".into(),
        ItOp::Count => "c".into(),
        ItOp::Last => "z".into(),
    }))
}

fn fin_tok(f: &ItFin) -> String {
    match f {
        ItFin::Drop => "D".into(),
        ItFin::Count => "C".into(),
        ItFin::Last => "L".into(),
        ItFin::Collect(_) => "V".into(),
        ItFin::Skip(k) => format!("S{}", k),
    }
}

fn iter_cycle(out: &mut Out, res: &AtomicSamplingReservoir, cap: usize, pushed: &[u64], script: &[ItOp], fin: &ItFin) {
    let seen = consume_script(res, script, fin);
    out.op(
        &format!("reservoir consumes {} {}", script_tok(script), fin_tok(fin)),
        &format!("outs={} fin={}", if seen.outs.is_empty() { "-".to_string() } else { seen.outs.join(";") }, seen.fin),
    );
    let ctx = format!("cap={} pushed n={} closure script {} then {}", cap, pushed.len(), script_tok(script), fin_tok(fin));
    for b in &seen.bad {
        out.oracle_fail("the Drain iterator contradicts itself (next/len/size_hint/adaptors)", &format!("{}: {}", ctx, b));
    }
    if seen.handed.len() > cap {
        out.oracle_fail("a drain yields more values than the capacity", &format!("{}: {} values handed to the closure", ctx, seen.handed.len()));
    }
    if !is_sub_multiset(&seen.handed, pushed) {
        out.oracle_fail(
            "drain yields a value not pushed since the previous drain",
            &format!("{}: handed {:x?} pushed {:x?} (a value handed out twice counts as not pushed)", ctx, seen.handed, pushed),
        );
    }
    if !res.is_empty() {
        out.oracle_fail("reservoir not empty after a drain", &ctx);
    }
}

fn pick_script(r: &mut Rng, cap: usize) -> (Vec<ItOp>, ItFin) {
    let len = r.below(7);
    let mut v = vec![];
    for _ in 0..len {
        v.push(match r.weighted(&[6, 3, 3, 1, 2, 2, 1, 1]) {
            0 => ItOp::Next,
            1 => ItOp::Nth(r.below(cap + 3)),
            2 => ItOp::Len,
            3 => ItOp::Rate,
            4 => ItOp::Hint,
            5 => ItOp::Collect,
            6 => ItOp::Count,
            _ => ItOp::Last,
        });
    }
    // many scripts keep calling next() past the end
    if r.chance(1, 2) {
        for _ in 0..r.range(1, cap.min(6) + 2) {
            v.push(ItOp::Next);
        }
    }
    let fin = match r.below(6) {
        0 => ItFin::Drop,
        1 => ItFin::Count,
        2 => ItFin::Last,
        3 => ItFin::Skip(r.below(cap + 2)),
        _ => ItFin::Collect(r.below(4)),
    };
    (v, fin)
}

fn iter_session(r: &mut Rng, out: &mut Out, cap: usize, corpus: Option<(Vec<ItOp>, ItFin)>) {
    let res = AtomicSamplingReservoir::new(cap);
    out.op(&format!("reservoir new {}", cap), "ok");
    out.count("iterator-script sessions");
    let cycles = r.range(1, 3);
    for cycle in 0..cycles {
        let n = pick_n(r, cap).min(40);
        let mut pushed = vec![];
        for pos in 0..n {
            let v = if r.chance(1, 8) { f64::from_bits(*r.pick(WILD)) } else { (cycle * 1000 + pos + 1) as f64 };
            let raw = pick_raw(r, pos);
            let p = push_scripted(&res, v, raw);
            out.op(&format!("reservoir push {:016x} {}", v.to_bits(), raw), &push_answer(&p));
            pushed.push(v.to_bits());
        }
        let (script, fin) = match (&corpus, cycle) {
            (Some(c), 0) => c.clone(),
            _ => pick_script(r, cap),
        };
        for op in &script {
            out.count(&format!("iterator op {}", match op {
                ItOp::Next => "next",
                ItOp::Nth(_) => "nth",
                ItOp::Len => "len",
                ItOp::Rate => "sample_rate",
                ItOp::Hint => "size_hint",
                ItOp::Collect => "by_ref().collect",
                ItOp::Count => "by_ref().count",
                ItOp::Last => "by_ref().last",
            }));
        }
        iter_cycle(out, &res, cap, &pushed, &script, &fin);
        if n > 0 && cap > 0 {
            out.nontrivial();
        }
    }
}

// ---------------------------------------------------------------------------------------------
// stream I (round 6): real generator at long streams and at the default capacity; several free-running pushers

const LN_2E11: f64 = 26.021_9; // ln(2e11): two-sided Hoeffding bound with false alarm 1e-11

/// Real generator, one pusher.  Two families of tests, each with false alarm < 1e-11 per test on correct code:
/// * per BIN of stream positions (`bins` equal ranges): the number of retained values of a bin over `trials` cycles.  In
///   one cycle the retained set of Algorithm R is a uniformly random `cap`-subset of the `n` positions, i.e. `cap` draws
///   WITHOUT replacement; by Hoeffding (1963, Thm 4) the with-replacement bound applies: the total over `trials`
///   independent cycles deviates from `trials*cap/bins` by more than `sqrt(trials*cap*ln(2e11)/2)` w.p. < 1e-11.
/// * per SLOT: the fraction of cycles in which slot `s` ends up holding a value of the second half of the stream.  Slot `s`
///   is overwritten by position `i >= cap` with probability `1/(i+1)`, so it survives positions `m..n` untouched w.p.
///   `m/n`: with `m = n/2 >= cap` the indicator is Bernoulli(1/2) exactly, independent across cycles (plain Hoeffding).
///   This sees a generator whose output is biased in the SLOT it picks (frozen / favoured slots) at large ranges.
fn uniformity_probe(out: &mut Out, cap: usize, n: usize, trials: usize, bins: usize) {
    assert!(n % 2 == 0 && n / 2 >= cap && n % bins == 0);
    out.case(&format!("stat bins+slots cap={} n={} trials={} bins={}", cap, n, trials, bins));
    out.count("statistical searches (real generator)");
    let res = AtomicSamplingReservoir::new(cap);
    let mut bin = vec![0u64; bins];
    let mut late = vec![0u64; cap];
    let mut foreign = 0u64;
    QUIET_PANIC.with(|q| q.set(true));
    let r = catch_unwind(AssertUnwindSafe(|| {
        for _ in 0..trials {
            for pos in 0..n {
                res.push(pos as f64);
            }
            res.consume(|drain| {
                if drain.len() != cap || drain.sample_rate().to_bits() != (cap as f64 / n as f64).to_bits() {
                    foreign += 1;
                }
                for (slot, v) in drain.enumerate() {
                    if v >= 0.0 && (v as usize) < n && slot < cap {
                        bin[(v as usize) * bins / n] += 1;
                        if (v as usize) >= n / 2 {
                            late[slot] += 1;
                        }
                    } else {
                        foreign += 1;
                    }
                }
            });
        }
    }));
    QUIET_PANIC.with(|q| q.set(false));
    if r.is_err() {
        out.oracle_fail("push panicked", &format!("cap={} n={} with the real generator", cap, n));
        return;
    }
    if foreign > 0 {
        out.oracle_fail("repeated push/drain cycles are not independent", &format!("cap={} n={} trials={}: {} wrong lengths/rates/values", cap, n, trials, foreign));
        return;
    }
    out.nontrivial();
    let t_bin = ((trials * cap) as f64 * LN_2E11 / 2.0).sqrt();
    let e_bin = (trials * cap) as f64 / bins as f64;
    if std::env::var("C16_DEBUG").is_ok() {
        let mb = (0..bins).map(|b| (bin[b] as f64 - e_bin).abs()).fold(0.0, f64::max);
        let ms = (0..cap).map(|x| (late[x] as f64 - trials as f64 / 2.0).abs()).fold(0.0, f64::max);
        eprintln!("uniformity cap={} n={} T={}: bins max dev {:.0} of allowed {:.0} (expected {:.0}); slots max dev {:.0} of allowed {:.0}", cap, n, trials, mb, t_bin, e_bin, ms, (trials as f64 * LN_2E11 / 2.0).sqrt());
    }
    let bad_bins: Vec<usize> = (0..bins).filter(|&b| (bin[b] as f64 - e_bin).abs() > t_bin).collect();
    if !bad_bins.is_empty() {
        out.oracle_fail(
            "retention frequency differs from capacity/n (real generator)",
            &format!(
                "cap={} n={} trials={}: retained values per {}-th of the stream {:?}; expected {:.0} ± {:.0} each (Hoeffding for sampling without replacement, false alarm < 1e-11); outside at {:?}",
                cap, n, trials, bins, bin, e_bin, t_bin, bad_bins
            ),
        );
    }
    let t_slot = (trials as f64 * LN_2E11 / 2.0).sqrt();
    let e_slot = trials as f64 / 2.0;
    let bad_slots: Vec<usize> = (0..cap).filter(|&s| (late[s] as f64 - e_slot).abs() > t_slot).collect();
    if !bad_slots.is_empty() {
        out.oracle_fail(
            "retention frequency differs from capacity/n (real generator)",
            &format!(
                "cap={} n={} trials={}: number of cycles in which a slot ends with a value of the second half of the stream, per slot (first 32) {:?}; expected {:.0} ± {:.0} (exactly Bernoulli(1/2) per cycle); outside at slots {:?}",
                cap, n, trials, &late[..cap.min(32)], e_slot, t_slot, &bad_slots[..bad_slots.len().min(32)]
            ),
        );
    }
}

/// Several FREE-RUNNING pushers (real generator, no scheduler), one epoch = all threads push `per` values each, then one
/// drain.  Thread `t`'s `k`-th value is `t*per+k`.  Whatever the interleaving, the generator's choice is independent of
/// the slot, so for every epoch the indicator "slot s ends with a value from the second half of ITS thread's stream" has
/// the same distribution for every slot s (fills, `k < cap <= per/2`, are never late).  The test compares slots with
/// each other: `late[s] - late[s']` is a sum over independent epochs of variables in [-1,1] with mean 0 →
/// |difference| > sqrt(2*epochs*ln(2e11)) has probability < 1e-11 (Hoeffding).  Sees generator state SHARED between
/// pushers that degrades under contention (e.g. a `try_lock` fallback to a fixed slot).  A late store (K-C16-late-store:
/// a thread descheduled between claim and store) moves at most one slot of an epoch; the margin is wider than any
/// plausible number of such events.  Counts stay exact (`conc_pushers_epoch_exact`): asserted per epoch.
fn pushers_uniformity_probe(out: &mut Out, cap: usize, pushers: usize, per: usize, epochs: usize) {
    assert!(per / 2 >= cap);
    out.case(&format!("stat free-running pushers cap={} pushers={} per={} epochs={}", cap, pushers, per, epochs));
    out.count("statistical searches (real generator)");
    let res = Arc::new(AtomicSamplingReservoir::new(cap));
    let mut late = vec![0i64; cap];
    let mut wrong = 0u64;
    let mut panicked = false;
    // start line: the pushers SPIN on the epoch number so that they enter an epoch within nanoseconds of each other
    // (an epoch lasts well under a millisecond; a blocking barrier would let them run one after the other)
    let epoch = Arc::new(AtomicUsize::new(0));
    let finished = Arc::new(AtomicUsize::new(0));
    let mut hs = vec![];
    for t in 0..pushers {
        let (res, epoch, finished) = (res.clone(), epoch.clone(), finished.clone());
        hs.push(std::thread::spawn(move || {
            QUIET_PANIC.with(|q| q.set(true));
            let mut ok = true;
            let mut seen = 0usize;
            loop {
                let mut spins = 0u32;
                let e = loop {
                    let e = epoch.load(SeqCst);
                    if e != seen {
                        break e;
                    }
                    spins += 1;
                    if spins > 20_000 {
                        std::thread::yield_now();
                    } else {
                        std::hint::spin_loop();
                    }
                };
                if e == usize::MAX {
                    return ok;
                }
                seen = e;
                let r = catch_unwind(AssertUnwindSafe(|| {
                    for k in 0..per {
                        res.push((t * per + k) as f64);
                    }
                }));
                ok &= r.is_ok();
                finished.fetch_add(1, SeqCst);
            }
        }));
    }
    let total = pushers * per;
    for ep in 0..epochs {
        finished.store(0, SeqCst);
        epoch.store(ep + 1, SeqCst);
        while finished.load(SeqCst) < pushers {
            std::thread::yield_now();
        }
        res.consume(|drain| {
            if drain.len() != cap || drain.sample_rate().to_bits() != (cap as f64 / total as f64).to_bits() {
                wrong += 1;
            }
            for (slot, v) in drain.enumerate() {
                if v >= 0.0 && (v as usize) < total && slot < cap {
                    if (v as usize) % per >= per / 2 {
                        late[slot] += 1;
                    }
                } else {
                    wrong += 1;
                }
            }
        });
    }
    epoch.store(usize::MAX, SeqCst);
    for h in hs {
        panicked |= !h.join().unwrap_or(false);
    }
    if panicked {
        out.oracle_fail("push panicked", &format!("cap={} {} free-running pushers (real generator)", cap, pushers));
        return;
    }
    if wrong > 0 {
        out.oracle_fail(
            "the drains' pushed-counts do not add up to the pushes made",
            &format!("cap={} {} free-running pushers x {} pushes, drain after all pushers finished: {} drains/values with a wrong length, rate or value", cap, pushers, per, wrong),
        );
        return;
    }
    out.nontrivial();
    let t = (2.0 * epochs as f64 * LN_2E11).sqrt();
    let (mn, mx) = (*late.iter().min().unwrap(), *late.iter().max().unwrap());
    if std::env::var("C16_DEBUG").is_ok() {
        eprintln!("pushers cap={} pushers={} per={} epochs={}: late {:?} spread {} allowed {:.0}", cap, pushers, per, epochs, late, mx - mn, t);
    }
    if (mx - mn) as f64 > t {
        out.oracle_fail(
            "retention frequency differs from capacity/n (real generator)",
            &format!(
                "cap={} {} free-running pushers x {} pushes, {} epochs: epochs in which a slot ends with a late value, per slot {:?}; all slots have the same distribution, yet max - min = {} > {:.0} (Hoeffding on the difference, false alarm < 1e-11 per pair)",
                cap, pushers, per, epochs, late, mx - mn, t
            ),
        );
    }
}

// ---------------------------------------------------------------------------------------------
// stream J (round 6): DogStatsDBuilder -> build() -> real forwarder thread -> unix datagram socket

struct E2eLog {
    msgs: Vec<crate::c10::Msg>,
    bad: Option<String>,
}

/// reads datagrams until a `sync` gauge with value `id` has arrived (or the deadline: `false`)
fn read_until_sync(sock: &std::os::unix::net::UnixDatagram, id: f64, log: &mut E2eLog) -> bool {
    let deadline = std::time::Instant::now() + std::time::Duration::from_secs(30);
    let mut buf = vec![0u8; 70_000];
    while std::time::Instant::now() < deadline {
        match sock.recv(&mut buf) {
            Ok(k) => match crate::c10::parse_payloads(&[buf[..k].to_vec()]) {
                Ok(ms) => {
                    let mut seen = false;
                    for m in ms {
                        if m.name == "sync" && m.values.first().and_then(|v| v.parse::<f64>().ok()) == Some(id) {
                            seen = true;
                        }
                        log.msgs.push(m);
                    }
                    if seen {
                        return true;
                    }
                }
                Err(e) => {
                    log.bad = Some(e);
                    return false;
                }
            },
            Err(_) => {}
        }
    }
    false
}

/// `calls`: ('s', 0|1) = with_histogram_sampling, ('z', n) = with_histogram_reservoir_size, in this order
fn builder_e2e(out: &mut Out, idx: usize, calls: &[(char, usize)], ns: &[usize]) {
    use metrics::{Key as MKey, Level, Metadata, Recorder};
    use metrics_exporter_dogstatsd::DogStatsDBuilder;
    static META: Metadata<'static> = Metadata::new("c16", Level::INFO, None);
    let calls_tok = list(calls.iter().map(|(c, v)| format!("{}{}", c, v)));
    out.case(&format!("builder e2e calls={} ns={:?}", calls_tok, ns));
    out.count("DogStatsDBuilder end-to-end exporters built");
    // what the documentation of the two setters promises (independent of the Lean model)
    let sampled = calls.iter().rev().find(|(c, _)| *c == 's').map(|(_, v)| *v == 1).unwrap_or(false);
    let size = calls.iter().rev().find(|(c, _)| *c == 'z').map(|(_, v)| *v).unwrap_or(DEFAULT_CAP);
    let dir = std::env::temp_dir().join(format!("mv-c16-{}-{}", std::process::id(), idx));
    let _ = std::fs::remove_dir_all(&dir);
    std::fs::create_dir_all(&dir).unwrap();
    let path = dir.join("s.sock");
    let sock = std::os::unix::net::UnixDatagram::bind(&path).unwrap();
    sock.set_read_timeout(Some(std::time::Duration::from_millis(50))).unwrap();
    let as_dist = idx % 2 == 0;
    let mut b = DogStatsDBuilder::default()
        .with_remote_address(format!("unixgram://{}", path.to_str().unwrap()))
        .expect("address parses")
        .with_flush_interval(std::time::Duration::from_millis(80))
        .with_telemetry(false)
        .send_histograms_as_distributions(as_dist);
    for (c, v) in calls {
        b = match c {
            's' => b.with_histogram_sampling(*v == 1),
            _ => b.with_histogram_reservoir_size(*v),
        };
    }
    let rec = b.build().expect("exporter builds");
    let h = rec.register_histogram(&MKey::from_name("h"), &META);
    let cnt = rec.register_counter(&MKey::from_name("cnt"), &META);
    let sync = rec.register_gauge(&MKey::from_name("sync"), &META);
    let mut next_id = 1.0f64;
    let mut log = E2eLog { msgs: vec![], bad: None };
    sync.set(next_id);
    if !read_until_sync(&sock, next_id, &mut log) {
        out.count("builder e2e: inconclusive (no flush observed within 30 s)");
        return;
    }
    let mut model_line_done = false;
    for (cycle, &n) in ns.iter().enumerate() {
        let base = (cycle * 100_000) as f64;
        let recorded: Vec<f64> = (0..n).map(|i| base + i as f64 + 1.0).collect();
        // a counter increment before the first and after every record: ONE non-zero counter message carrying n+1 that precedes
        // every histogram message of the cycle proves that a single flush saw all n records (counters are flushed
        // before histograms, datagrams of one sender arrive in order)
        cnt.increment(1);
        for v in &recorded {
            h.record(*v);
            cnt.increment(1);
        }
        let mut log = E2eLog { msgs: vec![], bad: None };
        let mut ok = true;
        for _ in 0..2 {
            next_id += 1.0;
            sync.set(next_id);
            ok &= read_until_sync(&sock, next_id, &mut log);
        }
        if let Some(e) = &log.bad {
            out.oracle_fail("dogstatsd sampled histogram: unparsable payload", &format!("builder calls {}: {}", calls_tok, e));
            return;
        }
        if !ok {
            out.count("builder e2e: inconclusive (no flush observed within 30 s)");
            return;
        }
        let ctx = format!(
            "DogStatsDBuilder::default() + [{}] (documented: sampling {}, reservoir size {}), real forwarder over a unix datagram socket, cycle {}: {} values recorded",
            calls_tok, sampled, size, cycle, n
        );
        let cnts: Vec<(usize, &crate::c10::Msg)> = log.msgs.iter().enumerate().filter(|(_, m)| m.name == "cnt" && m.values != vec!["0".to_string()]).collect();
        let hists: Vec<(usize, &crate::c10::Msg)> = log.msgs.iter().enumerate().filter(|(_, m)| m.name == "h").collect();
        let single_flush = cnts.len() == 1
            && cnts[0].1.values == vec![(n + 1).to_string()]
            && hists.first().map(|(i, _)| *i > cnts[0].0).unwrap_or(true);
        let mut vals: Vec<f64> = vec![];
        for (_, m) in &hists {
            if m.ty != (if as_dist { "d" } else { "h" }) {
                out.oracle_fail("dogstatsd sampled histogram: unexpected message", &format!("{}: {:?}", ctx, m));
            }
            vals.extend(m.values.iter().filter_map(|v| v.parse::<f64>().ok()));
        }
        // holds however the flushes fell: only recorded values, no message larger than the reservoir
        if vals.iter().any(|v| !(*v == 0.0 || (*v > base && *v <= base + n as f64))) {
            out.oracle_fail("drain yields a value not pushed since the previous drain", &format!("{}: payload values {:?}", ctx, vals));
        }
        if !single_flush && std::env::var("C16_DEBUG").is_ok() {
            eprintln!("split? n={} msgs={:?}", n, log.msgs.iter().map(|m| format!("{}:{}v:{:?}", m.name, m.values.len(), m.values.first())).collect::<Vec<_>>());
        }
        if !single_flush {
            out.count("builder e2e: cycle split by a flush (weak checks only)");
            continue;
        }
        out.count("builder e2e: single-flush cycles (strict checks)");
        let rates: Vec<Option<f64>> = hists.iter().map(|(_, m)| m.rate.as_ref().map(|r| r.parse::<f64>().unwrap_or(f64::NAN))).collect();
        if !sampled {
            let mut a: Vec<u64> = vals.iter().map(|v| v.to_bits()).collect();
            let mut e: Vec<u64> = recorded.iter().map(|v| v.to_bits()).collect();
            a.sort();
            e.sort();
            if a != e || rates.iter().any(|r| r.is_some()) {
                out.oracle_fail(
                    "the exporter's histogram storage is not the one the builder was configured for",
                    &format!("{}: sampling is off, every value must be flushed without a rate; got {} values, rates {:?}", ctx, vals.len(), rates),
                );
            }
        } else {
            let want = n.min(size);
            let want_rate = if n == 0 { 1.0 } else { want as f64 / n as f64 };
            if vals.len() != want {
                out.oracle_fail(
                    "the reservoir of a built exporter does not have the configured capacity",
                    &format!("{}: {} values flushed, min(recorded, configured size) = {}", ctx, vals.len(), want),
                );
            } else if n <= size && vals != recorded {
                out.oracle_fail("not all pushed values are yielded although no more than capacity were pushed", &format!("{}: {:?}", ctx, vals));
            }
            if rates.iter().any(|r| r.map(|x| x.to_bits()) != Some(want_rate.to_bits())) {
                out.oracle_fail("sample rate is not yielded / pushed", &format!("{}: messages carry rates {:?}, expected {:?}", ctx, rates, want_rate));
            }
            if n > size && size > 0 {
                out.nontrivial();
            }
        }
        // correspondence with the Lean model of the builder (`reservoir builder`): decode what was observed
        if !model_line_done && (n > size || !sampled) && n > 0 {
            model_line_done = true;
            let y = vals.len();
            let ans = if hists.is_empty() {
                format!("sampled=1 cap=0 yielded=0 rate=0/{}", n)
            } else if let Some(Some(r)) = rates.first() {
                let rt = if *r == 1.0 {
                    "1/1".to_string()
                } else if (y as f64 / n as f64).to_bits() == r.to_bits() {
                    format!("{}/{}", y, n)
                } else {
                    format!("?{:?}", r)
                };
                format!("sampled=1 cap={} yielded={} rate={}", y, y, rt)
            } else {
                format!("sampled=0 cap=~ yielded={} rate=1/1", y)
            };
            out.op(&format!("reservoir builder {} {}", calls_tok, n), &ans);
        }
    }
    let _ = std::fs::remove_dir_all(&dir);
}

/// wild f64 values through `AtomicHistogram::record` / `is_empty` / `flush` of the Sampled arm (`State::flush`), and a
/// reservoir of size 0 through `State::flush` (rate 0.0: `points / 0.0 as u64` must not panic)
fn dogstatsd_wild_case(out: &mut Out, size: usize, vals_bits: &[u64]) {
    use metrics::Recorder;
    static META: metrics::Metadata<'static> = metrics::Metadata::new("mv", metrics::Level::INFO, None);
    out.case(&format!("dogstatsd sampled histogram, wild values, size={} n={}", size, vals_bits.len()));
    out.count("dogstatsd sampled-histogram flushes");
    let n = vals_bits.len();
    QUIET_PANIC.with(|q| q.set(true));
    let r = catch_unwind(AssertUnwindSafe(|| {
        let mut driver = metrics_exporter_dogstatsd::verif::StateDriver::new(false, true, size, true, vec![], None);
        let rec = driver.recorder();
        let h = rec.register_histogram(&metrics::Key::from_name("h"), &META);
        let mut writer = metrics_exporter_dogstatsd::verif::Writer::new(8192, false);
        for b in vals_bits {
            h.record(f64::from_bits(*b));
        }
        let counts = driver.flush(&mut writer);
        let first = writer.drain();
        let counts2 = driver.flush(&mut writer);
        let second = writer.drain();
        (counts, first, counts2, second)
    }));
    QUIET_PANIC.with(|q| q.set(false));
    let ctx = format!("reservoir size {} (histogram_sampling=true): recorded bit patterns {:x?}", size, vals_bits);
    let (counts, first, counts2, second) = match r {
        Ok(x) => x,
        Err(_) => {
            out.oracle_fail("push panicked", &format!("{}: record/flush of the sampled histogram panicked", ctx));
            return;
        }
    };
    let msgs = match crate::c10::parse_payloads(&first) {
        Ok(m) => m,
        Err(e) => {
            // how a non-finite value is WRITTEN is C09's business; only note it
            out.count("observation: a wild value made the payload unparsable for the strict reader (C09's business)");
            let _ = e;
            return;
        }
    };
    let yielded: usize = msgs.iter().map(|m| m.values.len()).sum();
    if yielded != n.min(size) {
        out.oracle_fail(
            "drain length is not min(pushed, capacity)",
            &format!("{}: {} values in the payloads, {} recorded (a recorded value was not pushed into the reservoir?)", ctx, yielded, n),
        );
    }
    if counts.histogram_contexts != (if n > 0 { 1 } else { 0 }) {
        out.oracle_fail("dogstatsd sampled histogram: flush counters are not yielded / rate", &format!("{}: {:?} (a histogram with {} recorded values was {}flushed)", ctx, counts, n, if n > 0 { "not " } else { "" }));
    }
    if size > 0 && counts.histogram_points != n as u64 {
        out.oracle_fail("dogstatsd sampled histogram: flush counters are not yielded / rate", &format!("{}: {:?}, expected histogram_points {}", ctx, counts, n));
    }
    if !second.is_empty() || counts2.histogram_contexts != 0 {
        out.oracle_fail("a drain directly after a drain is not empty", &format!("{}: second flush wrote {:?} / {:?}", ctx, second, counts2));
    }
    out.nontrivial();
}

pub fn run(cfg: &Cfg, out: &mut Out) {
    let prev = std::panic::take_hook();
    std::panic::set_hook(Box::new(move |info| {
        if !QUIET_PANIC.with(|q| q.get()) {
            prev(info);
        }
    }));
    let root = Rng::new(cfg.seed);
    // watchdog: a hung run must end as a failed run, not as a hung check
    std::thread::spawn(|| {
        std::thread::sleep(std::time::Duration::from_secs(1200));
        eprintln!("C16 harness: watchdog timeout");
        std::process::exit(3);
    });

    // ---- corpus: past findings first
    // cap = 0 (panicked before the repair), cap = 1 with two pushes (first value never retained before the repair)
    for (cap, n) in [(0usize, 1usize), (0, 3), (1, 2), (1, 3), (2, 3)] {
        enum_case(out, cap, n);
    }
    {
        let mut r = root.fork(0xC16);
        out.case("corpus cap=0 session");
        session(&mut r, out, 0, false);
        out.case("corpus cap=1 session");
        session(&mut r, out, 1, false);
        out.case("corpus default capacity session");
        session(&mut r, out, DEFAULT_CAP, false);
    }

    // ---- stream B: exact enumeration on the real code
    let mut pairs: Vec<(usize, usize)> = vec![];
    let max_extra = if cfg.thorough { 5 } else { 3 };
    for cap in 0..=4usize {
        for extra in 0..=max_extra {
            let n = cap + extra;
            if n == 0 || (cap == 0 && extra > 4) {
                continue;
            }
            pairs.push((cap, n));
        }
    }
    if cfg.thorough {
        pairs.extend([(1, 7), (2, 8), (8, 11)]);
    }
    for (cap, n) in pairs {
        enum_case(out, cap, n);
    }

    // ---- stream C: statistics with the real generator
    let trials = if cfg.thorough { 40_000 } else { 4_000 };
    for (cap, n) in [(1usize, 2usize), (1, 3), (1, 5), (2, 3), (2, 5), (3, 4), (3, 7), (4, 6), (8, 12), (8, 20)] {
        stat_case(out, cap, n, trials);
    }

    // ---- stream D: parked push, complete drains
    *verif::POINT_HOOK.write().unwrap() = Some(point_hook);
    parked_grid(out);

    // ---- stream E: concurrency under the scheduler, replayed on the Lean step machine
    conc_corpus(out);
    {
        let p = |t: usize, k: usize, raw: usize| TOp::Push(pv(t, k), raw);
        conc_exhaustive(out, 1, &[vec![p(0, 0, 0), p(0, 1, 0)], vec![TOp::Consume, TOp::Consume]], 2000);
        if cfg.thorough {
            conc_exhaustive(out, 0, &[vec![p(0, 0, 0), p(0, 1, 1)], vec![TOp::Consume, TOp::Consume]], 5000);
            conc_exhaustive(out, 2, &[vec![p(0, 0, 0), p(0, 1, 0), p(0, 2, 1)], vec![TOp::Consume, TOp::Consume]], 20000);
            conc_exhaustive(out, 1, &[vec![p(0, 0, 0), p(0, 1, 0)], vec![p(1, 0, 1)], vec![TOp::Consume, TOp::Consume]], 20000);
            conc_exhaustive(out, 1, &[vec![p(0, 0, 0), p(0, 1, 1)], vec![TOp::Consume], vec![TOp::Consume]], 20000);
        }
    }
    let nconc = if cfg.thorough { cfg.cases / 2 } else { cfg.cases };
    for i in 0..nconc {
        let mut r = root.fork(0xC0_0000 + i as u64);
        conc_random(&mut r, out, i);
    }
    // ---- stream E2: epochs of pushers (no consumer thread)
    pushers_corpus(out);
    {
        let p = |t: usize, k: usize, raw: usize| TOp::Push(pv(t, k), raw);
        pushers_exhaustive(out, 1, &[vec![p(0, 0, 0)], vec![p(1, 0, 0)]], 100);
        if cfg.thorough {
            pushers_exhaustive(out, 1, &[vec![p(0, 0, 0)], vec![p(1, 0, 0), p(1, 1, 1)]], 3000);
            pushers_exhaustive(out, 1, &[vec![p(0, 0, 0)], vec![p(1, 0, 0)], vec![p(2, 0, 1)]], 3000);
            pushers_exhaustive(out, 2, &[vec![p(0, 0, 0), p(0, 1, 0)], vec![p(1, 0, 1), p(1, 1, 2)]], 5000);
        }
    }
    let npush = if cfg.thorough { cfg.cases / 2 } else { cfg.cases };
    for i in 0..npush {
        let mut r = root.fork(0xE2_0000 + i as u64);
        pushers_random(&mut r, out, i);
    }
    *verif::POINT_HOOK.write().unwrap() = None;

    // ---- stream F: probes
    exclusion_probe(out);
    closure_panic_probe(out);
    for (cap, pushers) in [(0usize, 2usize), (1, 3), (16, 3), (DEFAULT_CAP, 2)] {
        stress_probe(out, cap, pushers, if cfg.thorough { 200_000 } else { 20_000 });
    }
    generator_independence_probe(out);
    long_stream_probe(out, 16, 4096, if cfg.thorough { 2000 } else { 150 });
    long_stream_probe(out, 8, 300, if cfg.thorough { 20_000 } else { 2000 });

    // ---- stream G: DogStatsD sampled histogram
    for (size, n) in [(DEFAULT_CAP, 10usize), (DEFAULT_CAP, DEFAULT_CAP), (DEFAULT_CAP, 3000), (4, 0), (4, 3), (4, 4), (4, 5), (4, 64), (1, 7), (16, 100)] {
        dogstatsd_case(out, size, n, n % 2 == 0, 3);
    }


    // ---- stream H (round 6): closure scripts over the Drain object
    {
        let corpus: Vec<(usize, Vec<ItOp>, ItFin)> = vec![
            // next() again and again after None (a rewinding next() yields the values a second time)
            (2, vec![ItOp::Next, ItOp::Next, ItOp::Next, ItOp::Next, ItOp::Next, ItOp::Next, ItOp::Len], ItFin::Collect(0)),
            (1, vec![ItOp::Collect, ItOp::Next, ItOp::Collect, ItOp::Count, ItOp::Len, ItOp::Hint], ItFin::Count),
            (3, vec![ItOp::Nth(1), ItOp::Len, ItOp::Nth(0), ItOp::Nth(7), ItOp::Next], ItFin::Last),
            (4, vec![ItOp::Hint, ItOp::Len, ItOp::Next, ItOp::Hint, ItOp::Count, ItOp::Next], ItFin::Skip(1)),
            (3, vec![ItOp::Last, ItOp::Next, ItOp::Rate], ItFin::Collect(1)),
            (0, vec![ItOp::Next, ItOp::Nth(0), ItOp::Len, ItOp::Count], ItFin::Collect(2)),
            (8, vec![ItOp::Nth(3), ItOp::Next, ItOp::Len], ItFin::Skip(2)),
            (4, vec![], ItFin::Count),
            (4, vec![], ItFin::Last),
            (4, vec![ItOp::Next], ItFin::Collect(3)),
        ];
        for (i, (cap, script, fin)) in corpus.into_iter().enumerate() {
            let mut r = root.fork(0x17E_0000 + i as u64);
            out.case(&format!("corpus iterator script #{} cap={}", i, cap));
            iter_session(&mut r, out, cap, Some((script, fin)));
        }
        let niter = if cfg.thorough { cfg.cases / 2 } else { cfg.cases / 2 };
        for i in 0..niter {
            let mut r = root.fork(0x17F_0000 + i as u64);
            let cap = match r.below(8) {
                0 => 0,
                1 => 1,
                2 => 2,
                3 => 3,
                4 => 8,
                _ => r.range(4, 12),
            };
            out.case(&format!("iterator script seed={} i={}", cfg.seed, i));
            iter_session(&mut r, out, cap, None);
        }
    }

    // ---- stream I (round 6): real generator, long streams, default capacity, free-running pushers
    {
        let k = if cfg.thorough { 8 } else { 1 };
        uniformity_probe(out, 16, 4096, 1500 * k, 8);
        uniformity_probe(out, DEFAULT_CAP, 4096, 100 * k, 4);
        uniformity_probe(out, DEFAULT_CAP, 3072, 60 * k, 3);
        uniformity_probe(out, 8, 65536, 40 * k, 2);
        pushers_uniformity_probe(out, 8, 3, 4096, 600 * k);
        pushers_uniformity_probe(out, 2, 4, 1024, 600 * k);
    }

    // ---- stream J (round 6): the builder, the real forwarder, and wild values through the sampled arm
    {
        let configs: Vec<(Vec<(char, usize)>, Vec<usize>)> = vec![
            (vec![('s', 1), ('z', 4)], vec![9, 4, 64]),
            (vec![('s', 1)], vec![1500, 1024]),                      // default size
            (vec![('z', 2000), ('s', 1)], vec![2600, 2000]),         // above the default (a `.min(DEFAULT)` clamp)
            (vec![('s', 1), ('z', 1000)], vec![1003, 1000]),         // not a power of two, below the default
            (vec![('s', 0), ('s', 1), ('z', 7), ('z', 3)], vec![10, 3, 2]),
            (vec![('z', 5)], vec![40]),                              // size set, sampling never enabled: raw (code default)
            (vec![('s', 1), ('z', 16), ('s', 0)], vec![40]),         // switched off again
            (vec![('s', 1), ('z', 0)], vec![5, 1]),                  // size 0 through the real flush
            (vec![('s', 1), ('z', 1)], vec![7, 1]),
        ];
        let take = if cfg.thorough { configs.len() } else { configs.len() };
        for (i, (calls, ns)) in configs.into_iter().take(take).enumerate() {
            builder_e2e(out, i, &calls, &ns);
        }
        let wild: Vec<u64> = WILD.to_vec();
        dogstatsd_wild_case(out, 16, &wild);
        dogstatsd_wild_case(out, 4, &wild);
        dogstatsd_wild_case(out, 16, &[0x7ff8_0000_0000_0000]);
        dogstatsd_wild_case(out, 16, &[0x7ff0_0000_0000_0000, 0xfff0_0000_0000_0000]);
        dogstatsd_wild_case(out, 0, &[0x3ff0_0000_0000_0000, 0x4000_0000_0000_0000, 0x7ff8_0000_0000_0000]);
        dogstatsd_wild_case(out, 0, &[]);
        dogstatsd_wild_case(out, 1, &[0x8000_0000_0000_0000]);
    }

    // ---- stream A: scripted sessions
    for i in 0..cfg.cases {
        let mut r = root.fork(i as u64);
        let cap = pick_cap(&mut r);
        let wild = r.chance(1, 4);
        out.case(&format!("seed={} i={}", cfg.seed, i));
        session(&mut r, out, cap, wild);
    }
    let _ = std::panic::take_hook();
}
