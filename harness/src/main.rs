//! mv-harness: drives the real metrics-rs crates in-process and writes, per run,
//!   ops.txt      one model op per line (fed to the Lean driver `mvdriver`)
//!   impl.txt     the implementation's answer to each op (same line numbering)
//!   oracle.jsonl implementation-side property oracle failures (one JSON object per line)
//!   stats.json   counts, input distribution, samples
//!
//! usage: mv-harness <property> --seed N --cases N --out DIR [--thorough] [--replay FILE]

mod c02;
mod c06;
mod c07;
mod c08;
mod c09;
mod c13;
mod c17;
mod c20;
mod prom;
mod sched;
mod expo;
mod c12;
mod c03;
mod alloc;
mod c14;
mod c05;
mod c16;
mod c19;
mod c18;
mod c01;
mod c04;
mod c10;
mod c15;
mod c11;
mod util;

use std::path::PathBuf;
use util::{Cfg, Out};

/// pass-through to `System` until `alloc::install()` is called (only C14 does)
#[global_allocator]
static GLOBAL: alloc::Tracking = alloc::Tracking;

fn main() {
    let args: Vec<String> = std::env::args().collect();
    if args.len() < 2 {
        eprintln!("usage: mv-harness <property> --seed N --cases N --out DIR [--thorough] [--replay FILE]");
        std::process::exit(2);
    }
    let prop = args[1].clone();
    let mut cfg = Cfg { seed: 1, cases: 200, thorough: false, out: PathBuf::from("out"), replay: None };
    let mut i = 2;
    while i < args.len() {
        match args[i].as_str() {
            "--seed" => {
                cfg.seed = args[i + 1].parse().expect("seed");
                i += 1;
            }
            "--cases" => {
                cfg.cases = args[i + 1].parse().expect("cases");
                i += 1;
            }
            "--out" => {
                cfg.out = PathBuf::from(&args[i + 1]);
                i += 1;
            }
            "--replay" => {
                cfg.replay = Some(PathBuf::from(&args[i + 1]));
                i += 1;
            }
            "--thorough" => cfg.thorough = true,
            other => {
                eprintln!("unknown argument {}", other);
                std::process::exit(2);
            }
        }
        i += 1;
    }
    let mut out = Out::new(&cfg.out);
    util::start_watchdog(&cfg.out);
    match prop.as_str() {
        "C02" => c02::run(&cfg, &mut out),
        "C06" => c06::run(&cfg, &mut out),
        "C07" => {
            c07::run(&cfg, &mut out);
            c07::run_concurrent(&cfg, &mut out);
        }
        "C08" => {
            c08::run(&cfg, &mut out);
            c08::run_sessions(&cfg, &mut out);
        }
        "C09" => c09::run(&cfg, &mut out),
        "C13" => c13::run(&cfg, &mut out),
        "C17" => {
            c17::run(&cfg, &mut out);
            c17::run_concurrent(&cfg, &mut out)
        }
        "C20" => c20::run(&cfg, &mut out),
        "C12" => {
            c12::run(&cfg, &mut out);
            c12::run_concurrent(&cfg, &mut out)
        }
        "C03" => c03::run(&cfg, &mut out),
        "C14" => c14::run(&cfg, &mut out),
        "C05" => c05::run(&cfg, &mut out),
        "C16" => c16::run(&cfg, &mut out),
        "C19" => {
            c19::run(&cfg, &mut out);
            c19::run_concurrent(&cfg, &mut out)
        }
        "C18" => c18::run(&cfg, &mut out),
        "C01" => c01::run(&cfg, &mut out),
        "C04" => c04::run(&cfg, &mut out),
        "C10" => {
            c10::run(&cfg, &mut out);
            // what a flush hands to the forwarder must reach the agent as whole frames, each once: the forwarder's client
            // state machine (C09's Model/StatsdFwd stream D) is part of "every delta is sent" (after seed C10-7)
            c09::run_forwarder_stream(&cfg, &mut out);
        }
        "C15" => c15::run(&cfg, &mut out),
        "C11" => c11::run(&cfg, &mut out),
        other => {
            eprintln!("unknown property {}", other);
            std::process::exit(2);
        }
    }
    out.finish();
}
