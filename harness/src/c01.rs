//! C01 — emissions reach exactly the recorder in scope, never one whose scope ended.
//!
//! Real `metrics::with_local_recorder` closures / `metrics::set_default_local_recorder` guards / the real
//! emitting macros, driven by random program trees on 1–3 real OS threads (a fresh thread per case, so the
//! thread-local LOCAL_RECORDER of a case never survives into the next one).  Same ops → Lean model
//! (`localrec …`, lean/MetricsVerif/Model/LocalRec.lean).
//!
//! Safety: the recorder doubles live in a leaked arena (`Box::leak`), so the real code never dereferences a
//! dangling pointer; the END of a recorder's borrow is a harness event (`end <r>`) that clears the double's
//! `in_scope` flag.  A dispatch that reaches a double whose flag is clear is the observed violation.

use crate::util::*;
use metrics::{
    counter, describe_counter, describe_gauge, describe_histogram, gauge, histogram, Counter, CounterFn, Gauge, GaugeFn,
    Histogram, HistogramFn, Key, KeyName, Label, Level, LocalRecorderGuard, Metadata, Recorder, SharedString, Unit,
};
use std::cell::RefCell;
use std::collections::BTreeMap;
use std::panic::{catch_unwind, resume_unwind, AssertUnwindSafe};
use std::sync::atomic::{AtomicBool, AtomicU32, AtomicU64, Ordering};
use std::sync::{Arc, Barrier, Once, OnceLock};

// ---------------------------------------------------------------------------------------------
// what a recorder double receives

#[derive(Clone, Debug, PartialEq)]
struct Row {
    describe: bool,
    kind: char,
    name: String,
    labels: Vec<(String, String)>,
    target: Option<String>,
    level: Option<&'static str>,
    module_path: Option<String>,
    unit: Option<String>,
    desc: Option<String>,
}

impl Row {
    fn tok(&self) -> String {
        format!(
            "{}{} {} {} {} {} {} {} {}",
            if self.describe { 'd' } else { 'r' },
            self.kind,
            hexs(&self.name),
            pairs(&self.labels),
            opt_hexs(self.target.as_deref()),
            self.level.unwrap_or("~"),
            opt_hexs(self.module_path.as_deref()),
            opt_hexs(self.unit.as_deref()),
            opt_hexs(self.desc.as_deref())
        )
    }
}

struct Received {
    id: u32,
    owner: Option<usize>,
    in_scope: bool,
    row: Row,
    /// serial of the metric handle this `register_*` call returned (`None`: a `describe_*` call)
    handle: Option<u64>,
}

/// every call of a `Recorder` method on any double, process-wide (cases run one after the other): compared per case
/// with the number of deliveries the per-thread oracles looked at, so a delivery made where no oracle looks (thread
/// exit, TLS teardown, a thread the case did not start) is still counted
static DELIVERIES: AtomicU64 = AtomicU64::new(0);

static HANDLE_SERIAL: AtomicU64 = AtomicU64::new(1);

thread_local! {
    /// serials of the handles through which THIS thread updated a metric since it last cleared the list
    static HANDLE_OPS: RefCell<Vec<u64>> = RefCell::new(vec![]);
}

/// the metric handle a double returns from `register_*`: every update made through it is noted with its serial, so
/// "the handle the macro returns is the one the receiving recorder made" is observable
struct Handle {
    serial: u64,
}

impl Handle {
    fn note(&self) {
        HANDLE_OPS.with(|v| v.borrow_mut().push(self.serial));
    }
}

impl CounterFn for Handle {
    fn increment(&self, _: u64) {
        self.note()
    }
    fn absolute(&self, _: u64) {
        self.note()
    }
}

impl GaugeFn for Handle {
    fn increment(&self, _: f64) {
        self.note()
    }
    fn decrement(&self, _: f64) {
        self.note()
    }
    fn set(&self, _: f64) {
        self.note()
    }
}

impl HistogramFn for Handle {
    fn record(&self, _: f64) {
        self.note()
    }
}

/// what every register call site of the form table does with the handle the macro returned: one update through it
trait Touch {
    fn touch(self);
}
impl Touch for Counter {
    fn touch(self) {
        self.increment(1)
    }
}
impl Touch for Gauge {
    fn touch(self) {
        self.set(1.0)
    }
}
impl Touch for Histogram {
    fn touch(self) {
        self.record(1.0)
    }
}
fn touch<H: Touch>(h: H) {
    h.touch()
}

thread_local! {
    /// deliveries observed by the CALLING thread since it last cleared the list
    static RECEIVED: RefCell<Vec<Received>> = RefCell::new(vec![]);
}

thread_local! {
    /// a script the NEXT recorder callback on this thread runs from inside the `Recorder` method (re-entrant
    /// emissions, scopes opened inside the callback, a panic out of the callback); taken by the first delivery
    static CALLBACK: RefCell<Option<(*mut Ctx, *const [Stmt])>> = RefCell::new(None);
}

/// recorder double; lives in a leaked arena for the whole process
struct Double {
    id: u32,
    /// thread (index within the case) that may install it; `None` = the global recorder
    owner: Option<usize>,
    in_scope: &'static AtomicBool,
}

/// how the installed `&dyn Recorder` reaches the double: directly, or through one of the blanket
/// `impl_recorder!` impls of recorder/mod.rs (`&T`, `&mut T`, `Box<T>`, `Arc<T>`, and `Box<dyn Recorder>`)
#[derive(Clone, Copy, Debug, PartialEq)]
enum Wrap {
    Direct,
    Ref,
    RefMut,
    Boxed,
    Arced,
    BoxDyn,
}

const WRAPS: [Wrap; 6] = [Wrap::Direct, Wrap::Ref, Wrap::RefMut, Wrap::Boxed, Wrap::Arced, Wrap::BoxDyn];

/// a leaked double as the harness sees it: the recorder reference to install and its `in_scope` flag
#[derive(Clone, Copy)]
struct Arena {
    view: &'static dyn Recorder,
    flag: &'static AtomicBool,
    wrap: Wrap,
}

fn level_str(l: &Level) -> &'static str {
    if *l == Level::TRACE {
        "trace"
    } else if *l == Level::DEBUG {
        "debug"
    } else if *l == Level::INFO {
        "info"
    } else if *l == Level::WARN {
        "warn"
    } else {
        "error"
    }
}

impl Double {
    fn raw(id: u32, owner: Option<usize>) -> (Double, &'static AtomicBool) {
        let flag: &'static AtomicBool = Box::leak(Box::new(AtomicBool::new(true)));
        (Double { id, owner, in_scope: flag }, flag)
    }
    fn new(id: u32, owner: Option<usize>, wrap: Wrap) -> Arena {
        let (d, flag) = Double::raw(id, owner);
        let view: &'static dyn Recorder = match wrap {
            Wrap::Direct => Box::leak(Box::new(d)),
            Wrap::Ref => {
                let r: &'static Double = Box::leak(Box::new(d));
                let rr: &'static &'static Double = Box::leak(Box::new(r));
                rr
            }
            Wrap::RefMut => {
                let r: &'static mut Double = Box::leak(Box::new(d));
                let rr: &'static &'static mut Double = Box::leak(Box::new(r));
                rr
            }
            Wrap::Boxed => {
                let b: &'static Box<Double> = Box::leak(Box::new(Box::new(d)));
                b
            }
            Wrap::Arced => {
                let a: &'static Arc<Double> = Box::leak(Box::new(Arc::new(d)));
                a
            }
            Wrap::BoxDyn => {
                let b: Box<dyn Recorder> = Box::new(d);
                let bb: &'static Box<dyn Recorder> = Box::leak(Box::new(b));
                bb
            }
        };
        Arena { view, flag, wrap }
    }
    fn got(&self, row: Row, handle: Option<u64>) {
        let r = Received { id: self.id, owner: self.owner, in_scope: self.in_scope.load(Ordering::SeqCst), row, handle };
        DELIVERIES.fetch_add(1, Ordering::SeqCst);
        RECEIVED.with(|v| v.borrow_mut().push(r));
        // the script of this callback, if any, runs HERE: inside the `Recorder` method, inside `with_recorder`
        let cb = CALLBACK.with(|c| c.borrow_mut().take());
        if let Some((cx, script)) = cb {
            // SAFETY: set by `Ctx::emit` on this thread immediately before the macro call that led here; `emit`
            // does not touch the `Ctx` while the call is in progress, and both pointers outlive the call
            unsafe { exec(&mut *cx, &*script) }
        }
    }
    fn desc(&self, kind: char, key: KeyName, unit: Option<Unit>, d: SharedString) {
        self.got(Row {
            describe: true,
            kind,
            name: key.as_str().to_string(),
            labels: vec![],
            target: None,
            level: None,
            module_path: None,
            unit: unit.map(|u| u.as_str().to_string()),
            desc: Some(d.to_string()),
        }, None);
    }
    fn reg(&self, kind: char, key: &Key, m: &Metadata<'_>) -> Arc<Handle> {
        let serial = HANDLE_SERIAL.fetch_add(1, Ordering::SeqCst);
        self.got(Row {
            describe: false,
            kind,
            name: key.name().to_string(),
            labels: key.labels().map(|l| (l.key().to_string(), l.value().to_string())).collect(),
            target: Some(m.target().to_string()),
            level: Some(level_str(m.level())),
            module_path: m.module_path().map(|s| s.to_string()),
            unit: None,
            desc: None,
        }, Some(serial));
        Arc::new(Handle { serial })
    }
}

impl Recorder for Double {
    fn describe_counter(&self, k: KeyName, u: Option<Unit>, d: SharedString) {
        self.desc('c', k, u, d)
    }
    fn describe_gauge(&self, k: KeyName, u: Option<Unit>, d: SharedString) {
        self.desc('g', k, u, d)
    }
    fn describe_histogram(&self, k: KeyName, u: Option<Unit>, d: SharedString) {
        self.desc('h', k, u, d)
    }
    fn register_counter(&self, k: &Key, m: &Metadata<'_>) -> Counter {
        Counter::from_arc(self.reg('c', k, m))
    }
    fn register_gauge(&self, k: &Key, m: &Metadata<'_>) -> Gauge {
        Gauge::from_arc(self.reg('g', k, m))
    }
    fn register_histogram(&self, k: &Key, m: &Metadata<'_>) -> Histogram {
        Histogram::from_arc(self.reg('h', k, m))
    }
}

// ---------------------------------------------------------------------------------------------
// the compiled table of macro forms (same order as `forms` in Model/LocalRec.lean)

fn seven() -> u16 {
    std::hint::black_box(7)
}
fn dynamic_val() -> &'static str {
    std::hint::black_box("xyz")
}
const C_KEY: &str = "c_const";
const CK: &str = "ck";
const CV: &str = "cv";

type FormFn = fn();

static OLD_FORMS: &[FormFn] = &[
    /* 0 */ || touch(counter!("c_lit")),
    /* 1 */ || touch(counter!(format!("c_computed_{}", seven()))),
    /* 2 */ || touch(counter!("c_lit", "uvw" => "xyz")),
    /* 3 */ || touch(counter!(format!("c_computed_{}", seven()), "uvw" => "xyz", "a" => "b")),
    /* 4 */ || touch(counter!("c_lit", "dyn" => format!("{}!", dynamic_val()))),
    /* 5 */
    || {
        let labels = [("uvw", format!("{}!", dynamic_val())), ("k2", "v2".to_string())];
        touch(counter!(format!("c_computed_{}", seven()), &labels))
    },
    /* 6 */ || touch(counter!(target: "tgt_a", "c_lit")),
    /* 7 */ || touch(counter!(level: Level::DEBUG, "c_lit")),
    /* 8 */ || touch(counter!(target: "tgt_b", level: Level::WARN, "c_lit", "uvw" => "xyz")),
    /* 9 */ || touch(counter!(C_KEY, CK => CV)),
    /* 10 */ || touch(gauge!("g_lit")),
    /* 11 */ || touch(gauge!(format!("g_computed_{}", seven()), "a" => "1", "b" => "2")),
    /* 12 */
    || {
        let labels = vec![("uvw", format!("{}!", dynamic_val())), ("k2", "v2".to_string())];
        touch(gauge!(target: "tgt_g", "g_lit", &labels))
    },
    /* 13 */ || touch(gauge!(level: Level::TRACE, format!("g_computed_{}", seven()))),
    /* 14 */
    || {
        touch(
            gauge!(target: "tgt_g", level: Level::ERROR, format!("g_computed_{}", seven()), "dyn" => format!("{}!", dynamic_val()), "lit" => "v"),
        )
    },
    /* 15 */ || touch(histogram!("h_lit")),
    /* 16 */ || touch(histogram!("h_lit", "dyn" => format!("{}!", dynamic_val()))),
    /* 17 */
    || {
        let labels = [("uvw", format!("{}!", dynamic_val())), ("k2", "v2".to_string())];
        touch(histogram!(target: "tgt_h", level: Level::ERROR, format!("h_computed_{}", seven()), &labels))
    },
    /* 18 */ || touch(histogram!(level: Level::WARN, "h_lit", "uvw" => "xyz")),
    /* 19 */ || touch(histogram!(target: "tgt_h", format!("h_computed_{}", seven()))),
    /* 20 */ || describe_counter!("c_lit", "a counter"),
    /* 21 */ || describe_counter!("c_lit", Unit::Nanoseconds, "a counter"),
    /* 22 */ || describe_counter!(format!("c_computed_{}", seven()), Unit::Bytes, format!("computed desc {}", seven())),
    /* 23 */ || describe_gauge!("g_lit", "a gauge"),
    /* 24 */ || describe_gauge!(format!("g_computed_{}", seven()), Unit::Percent, "a gauge"),
    /* 25 */ || describe_histogram!(format!("h_computed_{}", seven()), format!("computed desc {}", seven())),
    /* 26 */ || describe_histogram!("h_lit", Unit::Seconds, "a histogram"),
    /* 27 */ || touch(counter!("c_lit", "uvw" => "xyz",)),
    /* 28 */ || describe_counter!("c_lit", Unit::CountPerSecond, "a counter",),
];

const MP: &str = "mv_harness::c01";

// ---------------------------------------------------------------------------------------------
// the systematic part of the table: EVERY combination of
//   macro (counter!/gauge!/histogram!) × prefix arm (none | target: | level: | target:+level:)
//   × name (literal | computed) × labels (none | literal pairs | computed pairs | collection)        = 96 call sites
//   describe_* (3) × name (literal | computed) × unit (none | each of the 17 `Unit` variants)         = 108 call sites
//   direct `metrics::with_recorder(|r| r.<method>(…))` calls (the public API the macros expand to)    = 6 call sites
// in the order of `genReg ++ genDesc ++ directForms` of Model/LocalRec.lean.  The expected rows are written from the
// SPELLING (kind, prefix, name, label shape) by plain functions that never touch the macros.

fn reg_row(kind: char, name: &str, labels: &[(&str, &str)], target: &str, level: &'static str) -> Row {
    Row {
        describe: false,
        kind,
        name: name.to_string(),
        labels: labels.iter().map(|(k, v)| (k.to_string(), v.to_string())).collect(),
        target: Some(target.to_string()),
        level: Some(level),
        module_path: Some(MP.to_string()),
        unit: None,
        desc: None,
    }
}

fn desc_row(kind: char, name: &str, unit: Option<&str>, d: &str) -> Row {
    Row {
        describe: true,
        kind,
        name: name.to_string(),
        labels: vec![],
        target: None,
        level: None,
        module_path: None,
        unit: unit.map(|s| s.to_string()),
        desc: Some(d.to_string()),
    }
}

const L_NONE: &[(&str, &str)] = &[];
const L_LIT: &[(&str, &str)] = &[("uvw", "xyz"), ("a", "b")];
const L_EXPR: &[(&str, &str)] = &[("dyn", "xyz!"), ("ck", "cv")];
const L_COLL: &[(&str, &str)] = &[("uvw", "xyz!"), ("k2", "v2")];

/// the 8 name × label shapes of one macro under one prefix; `$pre` is the token list of the prefix (with its
/// trailing comma), `$tg`/`$lv` what that prefix spells (target or the module path, level or INFO)
macro_rules! reg8 {
    ($v:ident, $mac:ident, $kind:literal, $lit:tt, $comp:tt, $tg:expr, $lv:expr, [$($pre:tt)*]) => {{
        let cname = concat!($comp, "7");
        $v.push(((|| touch($mac!($($pre)* $lit))) as FormFn, reg_row($kind, $lit, L_NONE, $tg, $lv)));
        $v.push((|| touch($mac!($($pre)* format!(concat!($comp, "{}"), seven()))), reg_row($kind, cname, L_NONE, $tg, $lv)));
        $v.push((|| touch($mac!($($pre)* $lit, "uvw" => "xyz", "a" => "b")), reg_row($kind, $lit, L_LIT, $tg, $lv)));
        $v.push((
            || touch($mac!($($pre)* format!(concat!($comp, "{}"), seven()), "uvw" => "xyz", "a" => "b")),
            reg_row($kind, cname, L_LIT, $tg, $lv),
        ));
        $v.push((
            || touch($mac!($($pre)* $lit, "dyn" => format!("{}!", dynamic_val()), CK => CV)),
            reg_row($kind, $lit, L_EXPR, $tg, $lv),
        ));
        $v.push((
            || touch($mac!($($pre)* format!(concat!($comp, "{}"), seven()), "dyn" => format!("{}!", dynamic_val()), CK => CV)),
            reg_row($kind, cname, L_EXPR, $tg, $lv),
        ));
        $v.push((
            || {
                let labels = [("uvw", format!("{}!", dynamic_val())), ("k2", "v2".to_string())];
                touch($mac!($($pre)* $lit, &labels))
            },
            reg_row($kind, $lit, L_COLL, $tg, $lv),
        ));
        $v.push((
            || {
                let labels = vec![("uvw", format!("{}!", dynamic_val())), ("k2", "v2".to_string())];
                touch($mac!($($pre)* format!(concat!($comp, "{}"), seven()), &labels))
            },
            reg_row($kind, cname, L_COLL, $tg, $lv),
        ));
    }};
}

/// the 4 prefix arms of one macro; `$lo`/`$lb`: the level spelled by the `level:` arm / the `target:, level:` arm
macro_rules! reg32 {
    ($v:ident, $mac:ident, $kind:literal, $lit:tt, $comp:tt, $lo:ident, $los:literal, $lb:ident, $lbs:literal) => {{
        reg8!($v, $mac, $kind, $lit, $comp, MP, "info", []);
        reg8!($v, $mac, $kind, $lit, $comp, "tgt_x", "info", [target: "tgt_x",]);
        reg8!($v, $mac, $kind, $lit, $comp, MP, $los, [level: Level::$lo,]);
        reg8!($v, $mac, $kind, $lit, $comp, "tgt_y", $lbs, [target: "tgt_y", level: Level::$lb,]);
    }};
}

/// describe_*: literal and computed name, without unit and with each `Unit` variant
macro_rules! desc36 {
    ($v:ident, $mac:ident, $kind:literal, $lit:tt, $comp:tt, [$($u:ident => $us:literal),*]) => {{
        let cname = concat!($comp, "7");
        $v.push(((|| $mac!($lit, "d lit")) as FormFn, desc_row($kind, $lit, None, "d lit")));
        $v.push((
            || $mac!(format!(concat!($comp, "{}"), seven()), format!("computed desc {}", seven())),
            desc_row($kind, cname, None, "computed desc 7"),
        ));
        $(
            $v.push((|| $mac!($lit, Unit::$u, "d lit"), desc_row($kind, $lit, Some($us), "d lit")));
            $v.push((
                || $mac!(format!(concat!($comp, "{}"), seven()), Unit::$u, format!("computed desc {}", seven())),
                desc_row($kind, cname, Some($us), "computed desc 7"),
            ));
        )*
    }};
}

macro_rules! desc_all_units {
    ($v:ident, $mac:ident, $kind:literal, $lit:tt, $comp:tt) => {
        desc36!($v, $mac, $kind, $lit, $comp, [
            Count => "count", Percent => "percent", Seconds => "seconds", Milliseconds => "milliseconds",
            Microseconds => "microseconds", Nanoseconds => "nanoseconds", Tebibytes => "tebibytes",
            Gibibytes => "gibibytes", Mebibytes => "mebibytes", Kibibytes => "kibibytes", Bytes => "bytes",
            TerabitsPerSecond => "terabits_per_second", GigabitsPerSecond => "gigabits_per_second",
            MegabitsPerSecond => "megabits_per_second", KilobitsPerSecond => "kilobits_per_second",
            BitsPerSecond => "bits_per_second", CountPerSecond => "count_per_second"
        ])
    };
}

const N_OLD: usize = 29;
const N_REG_GEN: usize = 96;

/// the whole table: (call site, what it spelled)
fn forms() -> &'static Vec<(FormFn, Row)> {
    static T: OnceLock<Vec<(FormFn, Row)>> = OnceLock::new();
    T.get_or_init(|| {
        let mut v: Vec<(FormFn, Row)> = OLD_FORMS.iter().enumerate().map(|(i, f)| (*f, expected_old(i))).collect();
        assert_eq!(v.len(), N_OLD);
        reg32!(v, counter, 'c', "c_lit", "c_computed_", DEBUG, "debug", WARN, "warn");
        reg32!(v, gauge, 'g', "g_lit", "g_computed_", TRACE, "trace", ERROR, "error");
        reg32!(v, histogram, 'h', "h_lit", "h_computed_", ERROR, "error", TRACE, "trace");
        assert_eq!(v.len(), N_OLD + N_REG_GEN);
        desc_all_units!(v, describe_counter, 'c', "c_lit", "c_computed_");
        desc_all_units!(v, describe_gauge, 'g', "g_lit", "g_computed_");
        desc_all_units!(v, describe_histogram, 'h', "h_lit", "h_computed_");
        assert_eq!(v.len(), N_OLD + N_REG_GEN + 108);
        // the public API the macros expand to, called by hand
        v.push((
            || {
                let key = Key::from_parts("direct_c", vec![Label::new("dk", "dv")]);
                let md = Metadata::new("tgt_d", Level::ERROR, Some(module_path!()));
                touch(metrics::with_recorder(|r| r.register_counter(&key, &md)))
            },
            reg_row('c', "direct_c", &[("dk", "dv")], "tgt_d", "error"),
        ));
        v.push((
            || {
                let key = Key::from_parts(format!("direct_g{}", seven()), vec![Label::new("dk", "dv"), Label::new("k2", "v2")]);
                let md = Metadata::new("tgt_d", Level::TRACE, Some(module_path!()));
                touch(metrics::with_recorder(|r| r.register_gauge(&key, &md)))
            },
            reg_row('g', "direct_g7", &[("dk", "dv"), ("k2", "v2")], "tgt_d", "trace"),
        ));
        v.push((
            || {
                let key = Key::from_name("direct_h");
                let md = Metadata::new(module_path!(), Level::WARN, Some(module_path!()));
                touch(metrics::with_recorder(|r| r.register_histogram(&key, &md)))
            },
            reg_row('h', "direct_h", &[], MP, "warn"),
        ));
        v.push((
            || metrics::with_recorder(|r| r.describe_counter("direct_c".into(), None, "direct desc".into())),
            desc_row('c', "direct_c", None, "direct desc"),
        ));
        v.push((
            || metrics::with_recorder(|r| r.describe_gauge("direct_g".into(), Some(Unit::Bytes), "direct desc".into())),
            desc_row('g', "direct_g", Some("bytes"), "direct desc"),
        ));
        v.push((
            || {
                metrics::with_recorder(|r| {
                    r.describe_histogram(format!("direct_h{}", seven()).into(), Some(Unit::Seconds), "direct desc".into())
                })
            },
            desc_row('h', "direct_h7", Some("seconds"), "direct desc"),
        ));
        v
    })
}

fn n_forms() -> usize {
    forms().len()
}

/// random form: half of the draws from the register forms (label/prefix forwarding), half from anywhere
fn pick_form(r: &mut Rng) -> usize {
    if r.chance(1, 2) {
        N_OLD + r.below(N_REG_GEN)
    } else {
        r.below(n_forms())
    }
}

fn form_class(f: usize) -> String {
    if f < N_OLD {
        format!("old.{:02}", f)
    } else if f < N_OLD + N_REG_GEN {
        let i = f - N_OLD;
        format!(
            "reg.{}.{}.{}",
            ["counter", "gauge", "histogram"][i / 32],
            ["plain", "target", "level", "target+level"][(i % 32) / 8],
            ["nolabels", "litpairs", "exprpairs", "collection"][(i % 8) / 2]
        )
    } else if f < N_OLD + N_REG_GEN + 108 {
        "describe.units".to_string()
    } else {
        "direct.with_recorder".to_string()
    }
}

/// what each call site of the first 29 forms spelled, written down independently of the macros
fn expected_old(form: usize) -> Row {
    fn reg(kind: char, name: &str, labels: &[(&str, &str)], target: &str, level: &'static str) -> Row {
        Row {
            describe: false,
            kind,
            name: name.to_string(),
            labels: labels.iter().map(|(k, v)| (k.to_string(), v.to_string())).collect(),
            target: Some(target.to_string()),
            level: Some(level),
            module_path: Some(MP.to_string()),
            unit: None,
            desc: None,
        }
    }
    fn desc(kind: char, name: &str, unit: Option<&str>, d: &str) -> Row {
        Row {
            describe: true,
            kind,
            name: name.to_string(),
            labels: vec![],
            target: None,
            level: None,
            module_path: None,
            unit: unit.map(|s| s.to_string()),
            desc: Some(d.to_string()),
        }
    }
    let coll: &[(&str, &str)] = &[("uvw", "xyz!"), ("k2", "v2")];
    match form {
        0 => reg('c', "c_lit", &[], MP, "info"),
        1 => reg('c', "c_computed_7", &[], MP, "info"),
        2 => reg('c', "c_lit", &[("uvw", "xyz")], MP, "info"),
        3 => reg('c', "c_computed_7", &[("uvw", "xyz"), ("a", "b")], MP, "info"),
        4 => reg('c', "c_lit", &[("dyn", "xyz!")], MP, "info"),
        5 => reg('c', "c_computed_7", coll, MP, "info"),
        6 => reg('c', "c_lit", &[], "tgt_a", "info"),
        7 => reg('c', "c_lit", &[], MP, "debug"),
        8 => reg('c', "c_lit", &[("uvw", "xyz")], "tgt_b", "warn"),
        9 => reg('c', "c_const", &[("ck", "cv")], MP, "info"),
        10 => reg('g', "g_lit", &[], MP, "info"),
        11 => reg('g', "g_computed_7", &[("a", "1"), ("b", "2")], MP, "info"),
        12 => reg('g', "g_lit", coll, "tgt_g", "info"),
        13 => reg('g', "g_computed_7", &[], MP, "trace"),
        14 => reg('g', "g_computed_7", &[("dyn", "xyz!"), ("lit", "v")], "tgt_g", "error"),
        15 => reg('h', "h_lit", &[], MP, "info"),
        16 => reg('h', "h_lit", &[("dyn", "xyz!")], MP, "info"),
        17 => reg('h', "h_computed_7", coll, "tgt_h", "error"),
        18 => reg('h', "h_lit", &[("uvw", "xyz")], MP, "warn"),
        19 => reg('h', "h_computed_7", &[], "tgt_h", "info"),
        20 => desc('c', "c_lit", None, "a counter"),
        21 => desc('c', "c_lit", Some("nanoseconds"), "a counter"),
        22 => desc('c', "c_computed_7", Some("bytes"), "computed desc 7"),
        23 => desc('g', "g_lit", None, "a gauge"),
        24 => desc('g', "g_computed_7", Some("percent"), "a gauge"),
        25 => desc('h', "h_computed_7", None, "computed desc 7"),
        26 => desc('h', "h_lit", Some("seconds"), "a histogram"),
        27 => reg('c', "c_lit", &[("uvw", "xyz")], MP, "info"),
        28 => desc('c', "c_lit", Some("count_per_second"), "a counter"),
        _ => unreachable!(),
    }
}

// ---------------------------------------------------------------------------------------------
// programs

#[derive(Clone, Debug)]
enum Stmt {
    Emit(usize),
    /// a macro call whose recorder callback runs `script` from inside the `Recorder` method (re-entrant
    /// emissions, nested scopes; a script ending in `Panic` makes the recorder method panic — the panic is
    /// caught directly around the macro call)
    EmitCb(usize, Vec<Stmt>),
    Install(u32),
    Drop(usize),
    Forget(usize),
    End(u32),
    /// `with_local_recorder(&rec, || body)` (or, `via_guard`: `{ let _g = set_default_local_recorder(&rec); body }`,
    /// a guard owned by the frame, dropped by return or by unwinding); `catch`: a `catch_unwind` sits directly
    /// around it
    With { rec: u32, body: Vec<Stmt>, catch: bool, via_guard: bool },
    Panic,
    Sync,
    SetGlobal(u32),
    /// `let _d = EmitOnDrop(form);` — a local of the enclosing body whose destructor makes the macro call ("record on
    /// drop" guards): the emission happens when the body is left, by return or WHILE A PANIC UNWINDS it
    /// (`std::thread::panicking()` is true then), after every later local of the body, before the recorder guard of
    /// the enclosing `with_local_recorder` frame is dropped
    Defer(usize),
}

struct VerifPanic;

const GLOBAL_ID: u32 = 900;

struct Ctx {
    tid: usize,
    /// the process-wide global recorder as the CASE knows it (0 = none); shared by the threads of the case,
    /// written by the thread that runs `SetGlobal`, which the program separates from every other thread's
    /// emissions by barriers
    global: Arc<AtomicU32>,
    /// how `set_global_recorder` is handed the double in this run (`&T`, `Arc<T>` or `Box<T>`)
    global_wrap: Wrap,
    slots: Vec<Option<LocalRecorderGuard<'static>>>,
    doubles: BTreeMap<u32, Arena>,
    /// barrier segment of the thread (number of `Sync`s passed): logs are merged segment by segment
    seg: usize,
    log: Vec<(usize, String, String)>,
    fails: Vec<(String, String)>,
    counts: Vec<String>,
    /// independent of the model: the thread's live installations, newest last
    spec_stack: Vec<(usize, u32)>,
    had_forget: bool,
    had_nonlifo: bool,
    barrier: Option<Arc<Barrier>>,
    max_depth: usize,
    depth: usize,
    /// deliveries this thread's oracles have looked at (compared with the process-wide count at the end of the case)
    seen: u64,
}

impl Ctx {
    /// nothing but a macro call may reach a recorder: after an `install`/`drop`/`forget`/scope entry/scope exit/
    /// `set_global_recorder` the thread's delivery list must be as long as it was when the enclosing body started
    fn quiet(&mut self, base: usize, during: &str) {
        let extra: Vec<Received> = RECEIVED.with(|v| {
            let mut v = v.borrow_mut();
            if v.len() > base {
                v.split_off(base)
            } else {
                vec![]
            }
        });
        for r in extra {
            self.seen += 1;
            self.fails.push((
                "a recorder method was called outside any macro call".into(),
                format!(
                    "recorder {} (in scope: {}) received {:?} during `{}`; thread {} after {} ops",
                    r.id, r.in_scope, r.row, during, self.tid, self.log.len()
                ),
            ));
        }
    }
    fn emit_deferred(&mut self, f: usize) {
        self.counts.push(if std::thread::panicking() { "emit.from_drop.while_unwinding" } else { "emit.from_drop.on_return" }.into());
        self.emit(f, None);
    }
    fn double(&mut self, r: u32) -> Arena {
        let tid = self.tid;
        let a = *self.doubles.entry(r).or_insert_with(|| Double::new(r, Some(tid), WRAPS[(r as usize) % WRAPS.len()]));
        a
    }
    fn op(&mut self, op: String, ans: String) {
        self.log.push((self.seg, format!("localrec {} {}", self.tid, op), ans));
    }
    fn global_now(&self) -> Option<u32> {
        match self.global.load(Ordering::SeqCst) {
            0 => None,
            g => Some(g),
        }
    }
    fn cause(&self) -> &'static str {
        match (self.had_nonlifo, self.had_forget) {
            (true, false) => "non-LIFO drop",
            (false, true) => "forgotten guard",
            (true, true) => "non-LIFO drop + forgotten guard",
            (false, false) => "LIFO program, nothing forgotten",
        }
    }
    fn emit(&mut self, f: usize, script: Option<&[Stmt]>) {
        // deliveries of an enclosing emission (we may be running inside its recorder callback) are set aside
        let outer = RECEIVED.with(|v| std::mem::take(&mut *v.borrow_mut()));
        let outer_h = HANDLE_OPS.with(|v| std::mem::take(&mut *v.borrow_mut()));
        // the op line of this emission comes BEFORE the lines of its callback script; its answer is filled in below
        let at = self.log.len();
        self.log.push((self.seg, String::new(), String::new()));
        // what the property says, decided BEFORE the call (the callback script may change the scopes)
        let lifo = !(self.had_forget || self.had_nonlifo);
        let spec_want = match self.spec_stack.last() {
            Some((_, r)) => format!("loc:{}", r),
            None => match self.global_now() {
                Some(g) => format!("glob:{}", g),
                None => "noop".to_string(),
            },
        };
        let here = format!("thread {} form {} after {} ops", self.tid, f, at);
        if let Some(s) = script {
            let me: *mut Ctx = self;
            CALLBACK.with(|c| *c.borrow_mut() = Some((me, s as *const [Stmt])));
            self.counts.push("callback.script".into());
        }
        let call = forms()[f].0;
        // `self` is not touched until the call is over (the callback script works through the raw pointer)
        let res = catch_unwind(call);
        let unused = CALLBACK.with(|c| c.borrow_mut().take()).is_some();
        let mut cb_panicked = false;
        if let Err(p) = res {
            if !p.is::<VerifPanic>() || script.is_none() {
                resume_unwind(p);
            }
            // the recorder method panicked (script ended in `Panic`); caught here, directly around the macro call
            self.counts.push("callback.panicked".into());
            cb_panicked = true;
        }
        // the updates made through the handle the macro returned (the call site makes exactly one)
        let hops = HANDLE_OPS.with(|v| std::mem::replace(&mut *v.borrow_mut(), outer_h));
        if let (true, Some(s)) = (unused, script) {
            // the emission reached no double (no-op recorder): there was no callback to run the script in.  Its
            // statements are run here instead, right after the call — for the model this is the same op sequence
            self.counts.push("callback.not_run(noop)".into());
            let me: *mut Ctx = self;
            let r = catch_unwind(AssertUnwindSafe(|| unsafe { exec(&mut *me, s) }));
            if let Err(p) = r {
                if !p.is::<VerifPanic>() {
                    resume_unwind(p);
                }
            }
        }
        let got = RECEIVED.with(|v| std::mem::replace(&mut *v.borrow_mut(), outer));
        self.seen += got.len() as u64;
        let want_row = forms()[f].1.clone();
        if got.len() > 1 {
            self.fails.push(("emission delivered more than once".into(), format!("{} deliveries; {}", got.len(), here)));
        }
        let tgt_of = |r: &Received| match r.owner {
            None => format!("glob:{}", r.id),
            Some(_) => format!("loc:{}", r.id),
        };
        // whose handle did the call site get?  (`~`: a describe form, there is none)
        let handle_tok = if want_row.describe {
            if !hops.is_empty() {
                self.fails.push(("a describe_* macro call updated a metric handle".into(), format!("{:?}; {}", hops, here)));
            }
            "~".to_string()
        } else if cb_panicked {
            // the recorder method never returned: there is no handle, and nothing may have been updated
            if !hops.is_empty() {
                self.fails.push(("metric handle updated although the recorder method panicked".into(), format!("{:?}; {}", hops, here)));
            }
            got.first().map_or("noop".to_string(), tgt_of)
        } else {
            match (got.first(), hops.as_slice()) {
                (None, []) => "noop".to_string(),
                (Some(r), [h]) if r.handle == Some(*h) => tgt_of(r),
                _ => {
                    self.fails.push((
                        "the handle returned by the macro is not the one the receiving recorder returned".into(),
                        format!(
                            "updates went through handle(s) {:?}, the receiving recorder call(s) returned {:?}; {}",
                            hops,
                            got.iter().map(|r| r.handle).collect::<Vec<_>>(),
                            here
                        ),
                    ));
                    "other".to_string()
                }
            }
        };
        let ans = match got.first() {
            None => format!("noop stale=0 lifo={} handle={} {}", lifo as u8, handle_tok, want_row.tok()),
            Some(r) => {
                format!("{} stale={} lifo={} handle={} {}", tgt_of(r), (!r.in_scope) as u8, lifo as u8, handle_tok, r.row.tok())
            }
        };
        // implementation-side oracles
        if let Some(r) = got.first() {
            if let Some(o) = r.owner {
                if o != self.tid {
                    self.fails.push((
                        "a locally installed recorder was visible on another thread".into(),
                        format!("recorder {} of thread {} received an emission of thread {}; {}", r.id, o, self.tid, here),
                    ));
                }
            }
            if !r.in_scope {
                self.fails.push((
                    format!("emission dispatched to a recorder after its scope ended ({})", self.cause()),
                    format!("recorder {}; {}", r.id, here),
                ));
                self.counts.push(format!("stale.dispatch.{}", self.cause().replace(' ', "_")));
            }
            if r.row != want_row {
                self.fails.push((
                    "delivered fields differ from what the call site spelled".into(),
                    format!("got {:?} want {:?}; {}", r.row, want_row, here),
                ));
            }
        }
        if lifo {
            // the property's own statement: innermost live local, else global, else noop
            let want = spec_want;
            let have = ans.split(' ').next().unwrap().to_string();
            if have != want {
                self.fails.push((
                    "emission did not reach the innermost recorder in scope (LIFO program, nothing forgotten)".into(),
                    format!("reached {} expected {}; {}", have, want, here),
                ));
            }
        }
        self.counts.push(format!("target.{}", ans.split(|c| c == ':' || c == ' ').next().unwrap()));
        self.counts.push(format!("form.class.{}", form_class(f)));
        if let Some(r) = got.first() {
            if r.owner.is_some() {
                if let Some(a) = self.doubles.get(&r.id) {
                    self.counts.push(format!("delivered.via.{:?}", a.wrap));
                }
            }
        }
        self.log[at].1 = format!("localrec {} emit {}", self.tid, f);
        self.log[at].2 = ans;
    }
    fn ended_guard(&mut self, gid: usize) {
        if self.spec_stack.last().map(|x| x.0) != Some(gid) {
            self.had_nonlifo = true;
        }
        self.spec_stack.retain(|x| x.0 != gid);
    }
}

/// the `EmitOnDrop` locals of one body, dropped like locals are: newest first, when the body's frame is left — by
/// return or by unwinding
struct Defers {
    cx: *mut Ctx,
    fs: Vec<usize>,
}

impl Drop for Defers {
    fn drop(&mut self) {
        while let Some(f) = self.fs.pop() {
            // SAFETY: the `Ctx` outlives every `exec` frame; nothing else touches it while a destructor runs
            unsafe { (*self.cx).emit_deferred(f) }
        }
    }
}

fn exec(cx: &mut Ctx, stmts: &[Stmt]) {
    let cxp: *mut Ctx = cx;
    // deliveries of an enclosing emission (this body may be a callback script) stay where they are
    let base = RECEIVED.with(|v| v.borrow().len());
    let mut defers = Defers { cx: cxp, fs: vec![] };
    for s in stmts {
        match s {
            Stmt::Emit(f) => cx.emit(*f, None),
            Stmt::EmitCb(f, script) => cx.emit(*f, Some(script)),
            Stmt::Defer(f) => {
                defers.fs.push(*f);
                cx.counts.push("stmt.defer".into());
            }
            Stmt::Install(r) => {
                let d = cx.double(*r);
                let g = metrics::set_default_local_recorder(d.view);
                let gid = cx.slots.len();
                cx.slots.push(Some(g));
                cx.spec_stack.push((gid, *r));
                cx.op(format!("install {}", r), format!("g{}", gid));
                cx.quiet(base, "set_default_local_recorder");
            }
            Stmt::Drop(g) => {
                let guard = cx.slots[*g].take().expect("generator: guard is live");
                drop(guard);
                cx.ended_guard(*g);
                cx.op(format!("drop {}", g), "ok".into());
                cx.quiet(base, "drop(guard)");
            }
            Stmt::Forget(g) => {
                let guard = cx.slots[*g].take().expect("generator: guard is live");
                std::mem::forget(guard);
                cx.had_forget = true;
                cx.spec_stack.retain(|x| x.0 != *g);
                cx.op(format!("forget {}", g), "ok".into());
                cx.quiet(base, "mem::forget(guard)");
            }
            Stmt::End(r) => {
                // the borrow `&r` handed to the guards ends here
                cx.double(*r).flag.store(false, Ordering::SeqCst);
                cx.op(format!("end {}", r), "ok".into());
            }
            Stmt::With { rec, body, catch, via_guard } => {
                let d = cx.double(*rec);
                let gid = cx.slots.len();
                cx.slots.push(None);
                cx.spec_stack.push((gid, *rec));
                cx.op(format!("enter {}", rec), format!("g{}", gid));
                cx.depth += 1;
                cx.max_depth = cx.max_depth.max(cx.depth);
                let res = if *via_guard {
                    // the guard is a local of the frame: dropped when the frame returns AND when a panic unwinds it
                    cx.counts.push("scope.frame_owned_guard".into());
                    catch_unwind(AssertUnwindSafe(|| {
                        let _frame_guard = metrics::set_default_local_recorder(d.view);
                        exec(&mut *cx, body)
                    }))
                } else {
                    catch_unwind(AssertUnwindSafe(|| metrics::with_local_recorder(d.view, || exec(&mut *cx, body))))
                };
                cx.depth -= 1;
                cx.ended_guard(gid);
                cx.quiet(base, "entering/leaving a local scope");
                match res {
                    Ok(()) => cx.op("exit".into(), "ok".into()),
                    Err(p) => {
                        if !p.is::<VerifPanic>() {
                            resume_unwind(p);
                        }
                        cx.op("unwind".into(), "ok".into());
                        cx.counts.push(if *via_guard { "frame_guard.unwound" } else { "closure.unwound" }.into());
                        if !*catch {
                            // no catch_unwind at this level in the modelled program: keep unwinding
                            resume_unwind(p);
                        }
                    }
                }
            }
            Stmt::Panic => std::panic::panic_any(VerifPanic),
            Stmt::Sync => {
                if let Some(b) = &cx.barrier {
                    b.wait();
                }
                cx.seg += 1;
            }
            Stmt::SetGlobal(r) => {
                let (d, _flag) = Double::raw(*r, None);
                let ok = match cx.global_wrap {
                    Wrap::Arced => metrics::set_global_recorder(Arc::new(d)).is_ok(),
                    Wrap::Boxed => metrics::set_global_recorder(Box::new(d)).is_ok(),
                    _ => {
                        let r: &'static Double = Box::leak(Box::new(d));
                        metrics::set_global_recorder(r).is_ok()
                    }
                };
                if ok {
                    cx.global.store(*r, Ordering::SeqCst);
                    cx.counts.push(format!("global.via.{:?}", cx.global_wrap));
                }
                cx.op(format!("setglobal {}", r), if ok { "ok".into() } else { "err".into() });
                cx.quiet(base, "set_global_recorder");
            }
        }
    }
}

// ---------------------------------------------------------------------------------------------
// generator

#[derive(Clone, Copy, Debug, PartialEq)]
enum Mode {
    /// closures only
    Closures,
    /// closures + guards, always dropped newest-first, nothing forgotten
    Lifo,
    /// oldest live guard first
    Fifo,
    /// any live guard, anywhere
    Random,
    /// newest-first like `Lifo`, but some guards are given to `mem::forget` instead of being dropped
    Forget,
    /// any live guard, dropped or forgotten
    Chaos,
}

struct Gen<'a> {
    r: &'a mut Rng,
    mode: Mode,
    tid: usize,
    next_gid: usize,
    next_rec: u32,
    /// live explicit guards (gid, rec, level at which it was installed), oldest first
    live: Vec<(usize, u32, usize)>,
    /// guard values (explicit live + open closures) per recorder
    borrows: BTreeMap<u32, usize>,
    ended: Vec<u32>,
    budget: usize,
    max_level: usize,
    /// nesting depth of recorder-callback scripts being generated (a script may contain a macro call that carries a
    /// script of its own: re-entrancy depth up to 3)
    in_script: usize,
}

impl<'a> Gen<'a> {
    fn pick_rec(&mut self) -> u32 {
        let known: Vec<u32> = self.borrows.keys().copied().filter(|r| !self.ended.contains(r)).collect();
        if !known.is_empty() && self.r.chance(2, 5) {
            *self.r.pick(&known)
        } else {
            let r = self.next_rec;
            self.next_rec += 1;
            self.borrows.insert(r, 0);
            r
        }
    }
    /// a macro call; one in six carries a script for its recorder callback: emissions made from inside the
    /// `Recorder` method, closures opened (and left, also by panics) inside it, possibly a panic out of the method
    fn emit_stmt(&mut self, level: usize) -> Stmt {
        let f = pick_form(self.r);
        let den = if self.in_script == 0 { 6 } else { 3 };
        if self.in_script >= 3 || self.budget < 3 || !self.r.chance(1, den) {
            return Stmt::Emit(f);
        }
        self.in_script += 1;
        let saved = self.mode;
        // half of the scripts keep the mode of the program: the recorder method itself creates guards
        // (`set_default_local_recorder` inside `register_*`), dropped inside the method or — in the non-LIFO modes —
        // after it returned; the other half only opens closures
        if self.r.chance(1, 2) {
            self.mode = Mode::Closures;
        }
        let strict = matches!(self.mode, Mode::Closures | Mode::Lifo | Mode::Forget);
        let n = self.r.range(1, 3);
        let (mut b, panicked) = self.body(level + 1, n);
        if !panicked {
            if strict {
                // a disciplined recorder method closes, newest first, every guard it created before it returns
                self.close_level_lifo(level + 1, &mut b);
            }
            b.push(Stmt::Emit(pick_form(self.r)));
        }
        self.mode = saved;
        self.in_script -= 1;
        Stmt::EmitCb(f, b)
    }
    fn maybe_end(&mut self, out: &mut Vec<Stmt>) {
        let cands: Vec<u32> =
            self.borrows.iter().filter(|(r, n)| **n == 0 && !self.ended.contains(r)).map(|(r, _)| *r).collect();
        for r in cands {
            if self.r.chance(1, 2) {
                self.ended.push(r);
                out.push(Stmt::End(r));
            }
        }
    }
    fn close(&mut self, idx: usize, forget: bool, out: &mut Vec<Stmt>) {
        let (g, rec, _) = self.live.remove(idx);
        *self.borrows.get_mut(&rec).unwrap() -= 1;
        out.push(if forget { Stmt::Forget(g) } else { Stmt::Drop(g) });
    }
    /// close every live explicit guard installed at `level` or deeper, newest first
    fn close_level_lifo(&mut self, level: usize, out: &mut Vec<Stmt>) {
        while let Some(idx) = self.live.iter().rposition(|x| x.2 >= level) {
            let f = self.mode == Mode::Forget && self.r.chance(1, 2);
            self.close(idx, f, out);
        }
    }
    /// returns (statements, body ended by a panic)
    fn body(&mut self, level: usize, len: usize) -> (Vec<Stmt>, bool) {
        let mut out = vec![];
        let strict = matches!(self.mode, Mode::Closures | Mode::Lifo | Mode::Forget);
        for _ in 0..len {
            if self.budget == 0 {
                break;
            }
            self.budget -= 1;
            let w_install = if self.mode == Mode::Closures { 0 } else { 4 };
            let w_close = if self.live.is_empty() { 0 } else { 4 };
            let w_with = if level < self.max_level { 4 } else { 0 };
            let w_panic = if level > 0 { 1 } else { 0 };
            match self.r.weighted(&[6, w_install, w_close, w_with, w_panic, 1]) {
                0 => {
                    let e = self.emit_stmt(level);
                    out.push(e)
                }
                1 => {
                    let rec = self.pick_rec();
                    let g = self.next_gid;
                    self.next_gid += 1;
                    self.live.push((g, rec, level));
                    *self.borrows.get_mut(&rec).unwrap() += 1;
                    out.push(Stmt::Install(rec));
                    if self.r.chance(2, 3) {
                        out.push(Stmt::Emit(pick_form(self.r)));
                    }
                }
                2 => {
                    match self.mode {
                        Mode::Closures => {}
                        Mode::Lifo | Mode::Forget => {
                            // only the newest guard of THIS closure level is on top of the stack
                            if let Some(idx) = self.live.iter().rposition(|x| x.2 == level) {
                                if idx == self.live.len() - 1 {
                                    let f = self.mode == Mode::Forget && self.r.chance(2, 3);
                                    self.close(idx, f, &mut out);
                                }
                            }
                        }
                        Mode::Fifo => self.close(0, false, &mut out),
                        Mode::Random => {
                            let i = self.r.below(self.live.len());
                            self.close(i, false, &mut out)
                        }
                        Mode::Chaos => {
                            let i = self.r.below(self.live.len());
                            let f = self.r.chance(1, 3);
                            self.close(i, f, &mut out)
                        }
                    }
                    self.maybe_end(&mut out);
                    if self.r.chance(2, 3) {
                        out.push(Stmt::Emit(pick_form(self.r)));
                    }
                }
                3 => {
                    let rec = self.pick_rec();
                    self.next_gid += 1;
                    *self.borrows.get_mut(&rec).unwrap() += 1;
                    let n = self.r.range(1, 5);
                    let (mut b, panicked) = self.body(level + 1, n);
                    if !panicked && strict {
                        let mut tail = vec![];
                        self.close_level_lifo(level + 1, &mut tail);
                        b.extend(tail);
                    }
                    *self.borrows.get_mut(&rec).unwrap() -= 1;
                    // who catches: level 0 always; in strict modes a level that still owns guards must catch
                    let must_catch = level == 0 || (strict && self.live.iter().any(|x| x.2 >= level));
                    let catch = !panicked || must_catch || self.r.chance(1, 2);
                    let via_guard = self.r.chance(1, 3);
                    out.push(Stmt::With { rec, body: b, catch, via_guard });
                    if panicked && !catch {
                        return (out, true);
                    }
                    self.maybe_end(&mut out);
                    if self.r.chance(2, 3) {
                        out.push(Stmt::Emit(pick_form(self.r)));
                    }
                }
                4 => {
                    if strict {
                        self.close_level_lifo(level, &mut out);
                    }
                    out.push(Stmt::Panic);
                    return (out, true);
                }
                _ => out.push(Stmt::Defer(pick_form(self.r))),
            }
        }
        (out, false)
    }
    fn finish(&mut self, out: &mut Vec<Stmt>) {
        out.push(Stmt::Emit(pick_form(self.r)));
        while !self.live.is_empty() {
            match self.mode {
                Mode::Closures | Mode::Lifo => self.close(self.live.len() - 1, false, out),
                Mode::Fifo => self.close(0, false, out),
                Mode::Random => {
                    let i = self.r.below(self.live.len());
                    self.close(i, false, out)
                }
                Mode::Chaos => {
                    let i = self.r.below(self.live.len());
                    let f = self.r.chance(1, 3);
                    self.close(i, f, out)
                }
                Mode::Forget => {
                    let f = self.r.chance(1, 2);
                    self.close(self.live.len() - 1, f, out)
                }
            }
            if self.r.chance(1, 3) {
                out.push(Stmt::Emit(pick_form(self.r)));
            }
        }
        // every scope and every borrow has ended: nothing local may be reachable any more
        let rest: Vec<u32> = self.borrows.keys().copied().filter(|r| !self.ended.contains(r)).collect();
        for r in rest {
            self.ended.push(r);
            out.push(Stmt::End(r));
        }
        out.push(Stmt::Emit(self.r.below(20)));
        out.push(Stmt::Emit(20 + self.r.below(n_forms() - 20)));
    }
}

fn gen_thread(r: &mut Rng, mode: Mode, tid: usize, syncs: usize) -> Vec<Stmt> {
    let mut g = Gen {
        r,
        mode,
        tid,
        next_gid: 0,
        next_rec: (tid as u32) * 100 + 1,
        live: vec![],
        borrows: BTreeMap::new(),
        ended: vec![],
        budget: 40,
        max_level: 0,
        in_script: 0,
    };
    g.max_level = g.r.range(1, 5);
    let _ = g.tid;
    let mut out = vec![];
    for seg in 0..=syncs {
        let n = g.r.range(2, 8);
        let (b, _) = g.body(0, n);
        out.extend(b);
        if seg < syncs {
            out.push(Stmt::Sync);
            out.push(Stmt::Emit(pick_form(g.r)));
        }
    }
    g.finish(&mut out);
    out
}

// ---------------------------------------------------------------------------------------------
// running a case

struct ThreadResult {
    log: Vec<(usize, String, String)>,
    fails: Vec<(String, String)>,
    counts: Vec<String>,
    max_depth: usize,
    had_forget: bool,
    had_nonlifo: bool,
    seen: u64,
}

static HOOK: Once = Once::new();

/// how `set_global_recorder` receives its double in this run (chosen from the seed in `run`)
static GLOBAL_WRAP: OnceLock<Wrap> = OnceLock::new();

fn run_case(out: &mut Out, tag: &str, global: &mut Option<u32>, progs: Vec<Vec<Stmt>>) {
    HOOK.call_once(|| {
        let prev = std::panic::take_hook();
        std::panic::set_hook(Box::new(move |info| {
            if !info.payload().is::<VerifPanic>() {
                prev(info)
            }
        }));
    });
    out.case(tag);
    out.op(&format!("localrec init {}", global.map_or("~".to_string(), |g| g.to_string())), "ok");
    let n = progs.len();
    let barrier = if n > 1 { Some(Arc::new(Barrier::new(n))) } else { None };
    let g0 = *global;
    let deliveries_before = DELIVERIES.load(Ordering::SeqCst);
    let mut seen = 0u64;
    let shared = Arc::new(AtomicU32::new(g0.unwrap_or(0)));
    let global_wrap = *GLOBAL_WRAP.get().unwrap_or(&Wrap::Ref);
    // every case runs on fresh OS threads: their LOCAL_RECORDER starts empty and dies with them
    let handles: Vec<_> = progs
        .into_iter()
        .enumerate()
        .map(|(tid, prog)| {
            let barrier = barrier.clone();
            let shared = shared.clone();
            std::thread::spawn(move || {
                let mut cx = Ctx {
                    tid,
                    global: shared,
                    global_wrap,
                    slots: vec![],
                    doubles: BTreeMap::new(),
                    seg: 0,
                    log: vec![],
                    fails: vec![],
                    counts: vec![],
                    spec_stack: vec![],
                    had_forget: false,
                    had_nonlifo: false,
                    barrier,
                    max_depth: 0,
                    depth: 0,
                    seen: 0,
                };
                let syncs = prog.iter().filter(|s| matches!(s, Stmt::Sync)).count();
                let me: *mut Ctx = &mut cx;
                let died = catch_unwind(AssertUnwindSafe(|| unsafe { exec(&mut *me, &prog) })).is_err();
                cx.quiet(0, "the end of the thread's program");
                if died {
                    // never leave the other threads of the case waiting at a barrier
                    for _ in cx.seg..syncs {
                        if let Some(b) = &cx.barrier {
                            b.wait();
                        }
                    }
                    cx.fails.push(("harness thread died".to_string(), format!("thread {} after {} ops", tid, cx.log.len())));
                }
                // the random generator closes every guard; the exhaustive programs may end with guards still open:
                // the thread ends here, nothing observes its LOCAL_RECORDER any more, so they are simply leaked
                for g in cx.slots.drain(..).flatten() {
                    std::mem::forget(g);
                }
                ThreadResult {
                    log: cx.log,
                    fails: cx.fails,
                    counts: cx.counts,
                    max_depth: cx.max_depth,
                    had_forget: cx.had_forget,
                    had_nonlifo: cx.had_nonlifo,
                    seen: cx.seen,
                }
            })
        })
        .collect();
    let mut fails = vec![];
    let mut depth = 0;
    let (mut forget, mut nonlifo) = (false, false);
    let mut logs: Vec<Vec<(usize, String, String)>> = vec![];
    for (tid, h) in handles.into_iter().enumerate() {
        match h.join() {
            Ok(tr) => {
                logs.push(tr.log);
                for c in &tr.counts {
                    out.count(c);
                }
                fails.extend(tr.fails);
                seen += tr.seen;
                depth = depth.max(tr.max_depth);
                forget |= tr.had_forget;
                nonlifo |= tr.had_nonlifo;
            }
            Err(_) => fails.push(("harness thread died".to_string(), format!("thread {}", tid))),
        }
    }
    // every thread of the case has ended (its thread-locals are gone): each recorder call made meanwhile must be one
    // a thread's oracles looked at — a call made at thread exit / TLS teardown, or between two macro calls, is not
    let delivered = DELIVERIES.load(Ordering::SeqCst) - deliveries_before;
    if delivered != seen {
        fails.push((
            "a recorder method was called outside any macro call".to_string(),
            format!("{} recorder calls were made during the case, {} of them by the macro calls of its threads", delivered, seen),
        ));
    }
    // the op stream follows the barriers: segment by segment (everything a thread did before its k-th `Sync`
    // happened before everything any thread did after it), threads in index order within a segment.  Within a
    // segment the threads touch disjoint state (own recorders, own LOCAL_RECORDER); `set_global_recorder` is
    // alone in its segment.
    let max_seg = logs.iter().flat_map(|l| l.iter().map(|x| x.0)).max().unwrap_or(0);
    for seg in 0..=max_seg {
        for l in &logs {
            for (s, op, ans) in l {
                if *s == seg {
                    out.op(op, ans);
                }
            }
        }
    }
    *global = match shared.load(Ordering::SeqCst) {
        0 => None,
        g => Some(g),
    };
    out.count(&format!("threads={}", n));
    out.count(&format!("depth={}", depth.min(5)));
    out.count(&format!("history.{}", match (nonlifo, forget) {
        (false, false) => "lifo",
        (true, false) => "nonlifo",
        (false, true) => "forget",
        (true, true) => "nonlifo+forget",
    }));
    out.count(&format!("global={}", g0.is_some()));
    if depth >= 2 || forget || nonlifo || n > 1 {
        out.nontrivial();
    }
    for (w, d) in fails {
        out.oracle_fail(&w, &d);
    }
}

fn corpus() -> Vec<(&'static str, Vec<Vec<Stmt>>)> {
    use Stmt::*;
    vec![
        // K-C01-fifo: both scopes and both borrows ended, yet recorder 1 is still installed
        ("corpus K-C01-fifo", vec![vec![Install(1), Install(2), Drop(0), Drop(1), End(1), End(2), Emit(0)]]),
        // K-C01-forget: a forgotten guard is never undone
        ("corpus K-C01-forget", vec![vec![Install(1), Forget(0), End(1), Emit(0)]]),
        // the closure form of the FIFO defect: a guard created inside a closure outlives the closure
        (
            "corpus closure-escape",
            vec![vec![With { rec: 1, body: vec![Install(2), Emit(2)], catch: true, via_guard: false }, Emit(3), Drop(1), End(1), End(2), Emit(21)]],
        ),
        // depth-3 nesting with a panic in the innermost closure, caught two levels up
        (
            "corpus depth3-panic",
            vec![vec![
                Emit(0),
                With {
                    rec: 1,
                    body: vec![
                        Emit(1),
                        With {
                            rec: 2,
                            body: vec![Emit(2), With { rec: 3, body: vec![Emit(8), Panic], catch: false, via_guard: false }, Emit(3)],
                            catch: true,
                            via_guard: false,
                        },
                        Emit(4),
                    ],
                    catch: true,
                    via_guard: false,
                },
                Emit(5),
                End(1),
                End(2),
                End(3),
                Emit(22),
            ]],
        ),
        // the repository's own test `local_recorder_restored_when_dropped`
        (
            "corpus repo-test",
            vec![vec![
                Install(1),
                Emit(0),
                Install(2),
                Emit(0),
                With { rec: 3, body: vec![Emit(0)], catch: true, via_guard: false },
                Emit(0),
                Drop(1),
                Emit(0),
                Drop(0),
                End(1),
                End(2),
                End(3),
                Emit(0),
            ]],
        ),
        // same recorder installed twice, nested
        ("corpus same-rec-twice", vec![vec![Install(1), Install(1), Emit(9), Drop(1), Emit(9), Drop(0), End(1), Emit(9)]]),
        // two threads: thread 1 must never see thread 0's recorder
        (
            "corpus isolation",
            vec![
                vec![Install(1), Sync, Emit(0), Sync, Drop(0), End(1), Emit(0)],
                vec![Emit(0), Sync, Emit(1), With { rec: 101, body: vec![Emit(2)], catch: true, via_guard: false }, Sync, End(101), Emit(3)],
            ],
        ),
        // every form once, inside a closure
        ("corpus all-forms", vec![vec![With { rec: 1, body: (0..n_forms()).map(Emit).collect(), catch: true, via_guard: false }]]),
        ("corpus all-forms-outside", vec![(0..n_forms()).map(Emit).collect()]),
        // every form once through each way a recorder can be handed over (recorder id mod 6 picks Direct, `&T`,
        // `&mut T`, `Box<T>`, `Arc<T>`, `Box<dyn Recorder>`: the blanket impls of recorder/mod.rs)
        (
            "corpus all-forms-every-wrapper",
            vec![(2..=6u32)
                .map(|k| With { rec: k, body: (0..n_forms()).map(Emit).collect(), catch: true, via_guard: k % 2 == 0 })
                .collect()],
        ),
        // the recorder method itself emits, opens and leaves scopes: everything it does happens in the scope of the
        // call site (with_recorder only READS the thread-local), and afterwards the scope is what it was
        (
            "corpus callback-reentrant",
            vec![vec![
                With {
                    rec: 1,
                    body: vec![
                        EmitCb(
                            2,
                            vec![
                                Emit(0),
                                With { rec: 2, body: vec![Emit(1), Emit(40)], catch: true, via_guard: false },
                                Emit(3),
                            ],
                        ),
                        Emit(4),
                        Install(3),
                        EmitCb(33, vec![Emit(60), With { rec: 1, body: vec![Emit(61)], catch: true, via_guard: true }, Emit(62)]),
                        Emit(5),
                        Drop(2),
                        Emit(6),
                    ],
                    catch: true,
                    via_guard: false,
                },
                EmitCb(0, vec![Emit(1)]),
                End(1),
                End(2),
                End(3),
                Emit(7),
            ]],
        ),
        // the recorder method panics (after making an emission of its own); the panic is caught around the macro
        // call: the local scope must be exactly what it was
        (
            "corpus callback-panic",
            vec![vec![
                With {
                    rec: 1,
                    body: vec![
                        EmitCb(0, vec![Emit(1), Panic]),
                        Emit(2),
                        EmitCb(21, vec![With { rec: 2, body: vec![Emit(3), Panic], catch: false, via_guard: false }]),
                        Emit(4),
                    ],
                    catch: true,
                    via_guard: false,
                },
                EmitCb(5, vec![Panic]),
                Emit(6),
                End(1),
                End(2),
                Emit(7),
            ]],
        ),
        // guards owned by frames (not by with_local_recorder) unwound by a panic, two frames at once
        (
            "corpus frame-guard-panic",
            vec![vec![
                Emit(0),
                With {
                    rec: 1,
                    body: vec![
                        Emit(1),
                        With {
                            rec: 2,
                            body: vec![Emit(2), With { rec: 3, body: vec![Emit(8), Panic], catch: false, via_guard: true }, Emit(3)],
                            catch: false,
                            via_guard: true,
                        },
                        Emit(4),
                    ],
                    catch: true,
                    via_guard: true,
                },
                Emit(5),
                End(1),
                End(2),
                End(3),
                Emit(22),
            ]],
        ),
        // "record on drop" locals: the macro call is made by a destructor WHILE THE PANIC UNWINDS the frame
        // (thread::panicking() is true); it must still reach the recorder of the scope the local lives in — scope 2 for
        // the inner one, then (the panic is not caught at the inner scope) scope 1 for the outer one; register and
        // describe forms, closure frames and frame-owned guards
        (
            "corpus emit-while-unwinding",
            vec![vec![
                Defer(0),
                With {
                    rec: 1,
                    body: vec![
                        Defer(3),
                        Defer(21),
                        Emit(1),
                        With { rec: 2, body: vec![Defer(2), Defer(26), Emit(3), Panic], catch: false, via_guard: false },
                        Emit(4),
                    ],
                    catch: true,
                    via_guard: false,
                },
                Emit(5),
                With {
                    rec: 3,
                    body: vec![
                        Defer(40),
                        With { rec: 4, body: vec![Defer(130), Emit(60), Panic], catch: false, via_guard: true },
                    ],
                    catch: true,
                    via_guard: true,
                },
                // the same on return
                With { rec: 5, body: vec![Defer(7), Defer(8), Emit(9)], catch: true, via_guard: false },
                // a destructor of a recorder method's frame, the method panics
                With { rec: 6, body: vec![EmitCb(0, vec![Defer(1), Emit(2), Panic]), Emit(3)], catch: true, via_guard: false },
                End(1),
                End(2),
                End(3),
                End(4),
                End(5),
                End(6),
                Emit(22),
            ]],
        ),
        // re-entrancy depth 3; each recorder method creates a guard of its own (set_default_local_recorder inside
        // register_*) and drops it before it returns
        (
            "corpus callback-depth3",
            vec![vec![
                With {
                    rec: 1,
                    body: vec![
                        EmitCb(
                            2,
                            vec![
                                Install(2),
                                EmitCb(3, vec![Install(3), EmitCb(4, vec![Emit(5), Defer(6)]), Emit(30), Drop(2)]),
                                Emit(6),
                                Drop(1),
                                Emit(31),
                            ],
                        ),
                        Emit(7),
                    ],
                    catch: true,
                    via_guard: false,
                },
                End(1),
                End(2),
                End(3),
                Emit(8),
            ]],
        ),
        // a guard created INSIDE a recorder method and dropped after the macro call returned (still newest-first)
        (
            "corpus guard-outlives-callback",
            vec![vec![
                Install(1),
                EmitCb(0, vec![Install(2), Emit(1)]),
                Emit(2),
                Drop(1),
                Emit(3),
                Drop(0),
                End(1),
                End(2),
                Emit(4),
            ]],
        ),
    ]
}

/// all programs of one thread over `install r` (r < recs), `drop g`, `forget g`, `emit` with at most `len` ops,
/// each closed by "end every recorder that may end; emit"
fn exhaustive(out: &mut Out, global: &mut Option<u32>, len: usize, recs: u32, runs: &mut u64) {
    fn go(
        out: &mut Out,
        global: &mut Option<u32>,
        prog: &mut Vec<Stmt>,
        live: &mut Vec<(usize, u32)>,
        closed: &mut Vec<(usize, u32)>,
        next_gid: usize,
        len: usize,
        recs: u32,
        runs: &mut u64,
    ) {
        // run the program as it stands (only if its last op is not an emit: those are covered by the tail)
        if !prog.is_empty() && !matches!(prog.last(), Some(Stmt::Emit(_))) {
            let mut p = prog.clone();
            for r in 1..=recs {
                if !live.iter().any(|x| x.1 == r) && closed.iter().any(|x| x.1 == r) {
                    p.push(Stmt::End(r));
                }
            }
            p.push(Stmt::Emit(2));
            *runs += 1;
            run_case(out, "exhaustive", global, vec![p]);
        }
        if prog.len() == len {
            return;
        }
        for r in 1..=recs {
            prog.push(Stmt::Install(r));
            live.push((next_gid, r));
            go(out, global, prog, live, closed, next_gid + 1, len, recs, runs);
            live.pop();
            prog.pop();
        }
        for i in 0..live.len() {
            for forget in [false, true] {
                let x = live.remove(i);
                closed.push(x);
                prog.push(if forget { Stmt::Forget(x.0) } else { Stmt::Drop(x.0) });
                go(out, global, prog, live, closed, next_gid, len, recs, runs);
                prog.pop();
                closed.pop();
                live.insert(i, x);
            }
        }
        if !matches!(prog.last(), Some(Stmt::Emit(_))) {
            prog.push(Stmt::Emit(0));
            go(out, global, prog, live, closed, next_gid, len, recs, runs);
            prog.pop();
        }
    }
    go(out, global, &mut vec![], &mut vec![], &mut vec![], 0, len, recs, runs);
}

// ---------------------------------------------------------------------------------------------
// type-level guarantees: programs the model answers `rejected` must be rejected by rustc
//
// The model assumes two things the running harness can never observe (its recorders are `&'static`, its guards
// never leave their thread): (1) the borrow of the recorder lives as long as the guard VALUE
// (`LocalRecorderGuard<'a>` carries the lifetime of `set_default_local_recorder`'s argument), so `endBorrow r` with a
// live guard of `r` is not a program; (2) guards are `!Send`, so a guard is never dropped on another thread.
// Each probe is the Rust spelling of a model program; it is compiled (type-checked only) against the `metrics`
// rlib this very harness was linked with.  The answer to the probe's LAST op is `rejected` iff rustc refuses the
// program with the expected error class; the control variant (same program, legal order) must compile.

struct Probe {
    name: &'static str,
    /// model ops (thread, op text) — the last one is the op the compiler must refuse
    ops: &'static [(usize, &'static str)],
    /// the model's answers to all ops but the last (what the control variant does)
    prefix_answers: &'static [&'static str],
    body: &'static str,
    control: &'static str,
    /// rustc error codes that mean "refused for the right reason"
    codes: &'static [&'static str],
    what: &'static str,
}

const PROBE_PRELUDE: &str = r#"
#![allow(dead_code, unused_variables)]
use metrics::{Counter, Gauge, Histogram, Key, KeyName, Metadata, Recorder, SharedString, Unit};
pub struct R(pub String);
impl Recorder for R {
    fn describe_counter(&self, _: KeyName, _: Option<Unit>, _: SharedString) {}
    fn describe_gauge(&self, _: KeyName, _: Option<Unit>, _: SharedString) {}
    fn describe_histogram(&self, _: KeyName, _: Option<Unit>, _: SharedString) {}
    fn register_counter(&self, _: &Key, _: &Metadata<'_>) -> Counter { Counter::noop() }
    fn register_gauge(&self, _: &Key, _: &Metadata<'_>) -> Gauge { Gauge::noop() }
    fn register_histogram(&self, _: &Key, _: &Metadata<'_>) -> Histogram { Histogram::noop() }
}
"#;

const PROBES: &[Probe] = &[
    Probe {
        name: "recorder freed while its guard is alive",
        ops: &[(0, "install 1"), (0, "end 1")],
        prefix_answers: &["g0"],
        body: "pub fn f() { let r = R(String::new()); let g = metrics::set_default_local_recorder(&r); drop(r); metrics::counter!(\"x\").increment(1); drop(g); }",
        control: "pub fn f() { let r = R(String::new()); let g = metrics::set_default_local_recorder(&r); metrics::counter!(\"x\").increment(1); drop(g); drop(r); }",
        codes: &["E0505", "E0597"],
        what: "safe Rust accepts a program that frees the recorder while a LocalRecorderGuard installed from it is alive (the guard no longer carries the recorder's borrow)",
    },
    Probe {
        name: "guard returned out of the recorder's frame",
        ops: &[(0, "install 1"), (0, "end 1")],
        prefix_answers: &["g0"],
        body: "pub fn f() -> metrics::LocalRecorderGuard<'static> { let r = R(String::new()); metrics::set_default_local_recorder(&r) }",
        control: "pub fn f<'a>(r: &'a R) -> metrics::LocalRecorderGuard<'a> { metrics::set_default_local_recorder(r) }",
        codes: &["E0515", "E0597", "E0521", "E0716"],
        what: "safe Rust accepts a function that returns the guard of a recorder local to that function (the guard no longer carries the recorder's borrow)",
    },
    Probe {
        name: "guard stored beyond the recorder's borrow",
        ops: &[(0, "install 1"), (0, "end 1")],
        prefix_answers: &["g0"],
        body: "pub fn f(slot: &mut Option<metrics::LocalRecorderGuard<'static>>) { let r = R(String::new()); *slot = Some(metrics::set_default_local_recorder(&r)); }",
        control: "pub fn f<'a>(slot: &mut Option<metrics::LocalRecorderGuard<'a>>, r: &'a R) { *slot = Some(metrics::set_default_local_recorder(r)); }",
        codes: &["E0597", "E0521", "E0716"],
        what: "safe Rust accepts storing the guard of a short-lived recorder in a 'static slot (the guard's lifetime is decoupled from the recorder's borrow)",
    },
    Probe {
        name: "guard dropped on another thread",
        ops: &[(0, "install 1"), (1, "drop 0")],
        prefix_answers: &["g0"],
        body: "pub fn f() { let r: &'static R = Box::leak(Box::new(R(String::new()))); let g = metrics::set_default_local_recorder(r); std::thread::spawn(move || drop(g)).join().unwrap(); }",
        control: "pub fn f() { let r: &'static R = Box::leak(Box::new(R(String::new()))); let g = metrics::set_default_local_recorder(r); std::thread::spawn(move || ()).join().unwrap(); drop(g); }",
        codes: &["E0277"],
        what: "safe Rust accepts moving a LocalRecorderGuard to another thread (the guard is Send): dropping it there writes one thread's saved recorder into another thread's LOCAL_RECORDER",
    },
    Probe {
        name: "guard shared with another thread",
        ops: &[(0, "install 1"), (1, "drop 0")],
        prefix_answers: &["g0"],
        body: "pub fn f() { let r: &'static R = Box::leak(Box::new(R(String::new()))); let g = metrics::set_default_local_recorder(r); std::thread::scope(|s| { s.spawn(|| { let _x = &g; }); }); }",
        control: "pub fn f() { let r: &'static R = Box::leak(Box::new(R(String::new()))); let g = metrics::set_default_local_recorder(r); std::thread::scope(|s| { s.spawn(|| ()); }); let _x = &g; }",
        codes: &["E0277"],
        what: "safe Rust accepts sharing a LocalRecorderGuard with another thread (the guard is Sync)",
    },
    Probe {
        name: "recorder reference kept beyond with_recorder",
        ops: &[(0, "enter 1"), (0, "keepref")],
        prefix_answers: &["g0"],
        body: "pub fn f() { let local = R(String::new()); let kept: &dyn Recorder = metrics::with_local_recorder(&local, || metrics::with_recorder(|r| r)); drop(local); kept.describe_counter(\"x\".into(), None, \"d\".into()); }",
        control: "pub fn f() { let local = R(String::new()); metrics::with_local_recorder(&local, || metrics::with_recorder(|r| r.describe_counter(\"x\".into(), None, \"d\".into()))); drop(local); }",
        codes: &["msg:lifetime may not live long enough", "E0521", "E0597", "E0505", "E0310"],
        what: "safe Rust accepts a program that keeps the `&dyn Recorder` handed to the closure of with_recorder after the call (its lifetime is not confined to the call): the local recorder is dispatched to after its scope and its borrow ended, in a LIFO program",
    },
    Probe {
        name: "recorder reference stored in a static from inside with_recorder",
        ops: &[(0, "enter 1"), (0, "keepref")],
        prefix_answers: &["g0"],
        body: "pub fn f() { static KEPT: std::sync::Mutex<Option<&'static (dyn Recorder + Sync)>> = std::sync::Mutex::new(None); let local = R(String::new()); metrics::with_local_recorder(&local, || metrics::with_recorder(|r| { let s: &'static dyn Recorder = r; let _ = s; })); let _ = &KEPT; }",
        control: "pub fn f() { static KEPT: std::sync::Mutex<Option<&'static (dyn Recorder + Sync)>> = std::sync::Mutex::new(None); let local = R(String::new()); metrics::with_local_recorder(&local, || metrics::with_recorder(|r| { let s: &dyn Recorder = r; let _ = s; })); let _ = &KEPT; }",
        codes: &["msg:lifetime may not live long enough", "msg:borrowed data escapes", "E0521", "E0597"],
        what: "safe Rust accepts treating the `&dyn Recorder` handed to the closure of with_recorder as `&'static dyn Recorder`",
    },
    Probe {
        name: "guard cloned",
        ops: &[(0, "install 1"), (0, "dupguard 0")],
        prefix_answers: &["g0"],
        body: "pub fn f() { let r = R(String::new()); let g = metrics::set_default_local_recorder(&r); let g2 = Clone::clone(&g); drop(g); drop(g2); }",
        control: "pub fn f() { let r = R(String::new()); let g = metrics::set_default_local_recorder(&r); let g2 = &g; let _ = g2; drop(g); }",
        codes: &["E0277", "E0599"],
        what: "safe Rust accepts cloning a LocalRecorderGuard (the guard is Clone): the copy writes the saved previous recorder back a second time, after the outer guard and the outer recorder's borrow are gone",
    },
    Probe {
        name: "guard used after it was moved (Copy)",
        ops: &[(0, "install 1"), (0, "dupguard 0")],
        prefix_answers: &["g0"],
        body: "pub fn f() { let r = R(String::new()); let g = metrics::set_default_local_recorder(&r); let g2 = g; drop(g); drop(g2); }",
        control: "pub fn f() { let r = R(String::new()); let g = metrics::set_default_local_recorder(&r); let g2 = g; drop(g2); }",
        codes: &["E0382"],
        what: "safe Rust accepts using a LocalRecorderGuard after it was moved (the guard is Copy): two values restore the same saved recorder",
    },
];

/// the `metrics` rlib this executable was linked with (newest `libmetrics-*.rlib` beside it) and the deps dir
fn metrics_rlib() -> (std::path::PathBuf, std::path::PathBuf) {
    let exe = std::env::current_exe().expect("current_exe");
    let deps = exe.parent().expect("target dir").join("deps");
    let mut best: Option<(std::time::SystemTime, std::path::PathBuf)> = None;
    for e in std::fs::read_dir(&deps).expect("deps dir").flatten() {
        let n = e.file_name().to_string_lossy().to_string();
        if n.starts_with("libmetrics-") && n.ends_with(".rlib") {
            let t = e.metadata().and_then(|m| m.modified()).expect("mtime");
            if best.as_ref().map_or(true, |b| t > b.0) {
                best = Some((t, e.path()));
            }
        }
    }
    (best.expect("libmetrics-*.rlib next to the harness executable").1, deps)
}

/// type-checks `src`; Ok(()) if rustc accepts it, Err(stderr) otherwise
pub(crate) fn rustc_check(dir: &std::path::Path, name: &str, src: &str) -> Result<(), String> {
    let (rlib, deps) = metrics_rlib();
    let file = dir.join(format!("{}.rs", name));
    std::fs::write(&file, src).expect("write probe");
    let o = std::process::Command::new("rustc")
        // the toolchain file of the harness crate pins the compiler the rlib was built with
        .current_dir(env!("CARGO_MANIFEST_DIR"))
        .env_remove("RUSTFLAGS")
        .args(["--edition", "2021", "--crate-type", "lib", "--emit", "metadata", "--error-format", "short", "-A", "warnings"])
        .arg("--crate-name")
        .arg(name)
        .arg("-o")
        .arg(dir.join(format!("lib{}.rmeta", name)))
        .arg("--extern")
        .arg(format!("metrics={}", rlib.display()))
        .arg("-L")
        .arg(format!("dependency={}", deps.display()))
        .arg(&file)
        .output()
        .expect("rustc could not be started");
    if o.status.success() {
        Ok(())
    } else {
        Err(String::from_utf8_lossy(&o.stderr).to_string())
    }
}

fn type_probes(out: &mut Out) {
    let dir = out.dir.join("probes");
    std::fs::create_dir_all(&dir).expect("probe dir");
    // all probes are independent: compile them in parallel
    let results: Vec<(Result<(), String>, Result<(), String>)> = std::thread::scope(|s| {
        let hs: Vec<_> = PROBES
            .iter()
            .enumerate()
            .map(|(i, p)| {
                let dir = dir.clone();
                s.spawn(move || {
                    let c = rustc_check(&dir, &format!("probe{}_control", i), &format!("{}\n{}\n", PROBE_PRELUDE, p.control));
                    let b = rustc_check(&dir, &format!("probe{}", i), &format!("{}\n{}\n", PROBE_PRELUDE, p.body));
                    (c, b)
                })
            })
            .collect();
        hs.into_iter().map(|h| h.join().expect("probe thread")).collect()
    });
    for (p, (control, body)) in PROBES.iter().zip(results) {
        out.case(&format!("type probe: {}", p.name));
        out.count("type_probe");
        out.nontrivial();
        // the control variant is the probe's own evidence that the prelude, the rlib and the compiler fit together:
        // if it does not compile the harness is broken, not the repository
        if let Err(e) = &control {
            panic!("type probe `{}`: the LEGAL control program does not compile — harness/toolchain problem:\n{}", p.name, e);
        }
        out.op("localrec init ~", "ok");
        let n = p.ops.len();
        for (i, (t, op)) in p.ops.iter().enumerate() {
            if i + 1 < n {
                out.op(&format!("localrec {} {}", t, op), p.prefix_answers[i]);
            } else {
                let ans = match &body {
                    Ok(()) => "ok".to_string(),
                    Err(e)
                        if p.codes.iter().any(|c| match c.strip_prefix("msg:") {
                            // borrow-check diagnostics without an error code are matched by their message
                            Some(m) => e.contains(m),
                            None => e.contains(&format!("[{}]", c)),
                        }) =>
                    {
                        "rejected".to_string()
                    }
                    Err(e) => panic!(
                        "type probe `{}`: rustc refused the program for an unexpected reason (expected one of {:?}):\n{}",
                        p.name, p.codes, e
                    ),
                };
                out.op(&format!("localrec {} {}", t, op), &ans);
                if ans != "rejected" {
                    out.oracle_fail(p.what, &format!("rustc accepts: {}", p.body));
                }
            }
        }
    }
}

fn random_case(out: &mut Out, root: &Rng, seed: u64, i: usize, global: &mut Option<u32>) {
    let mut r = root.fork(i as u64);
    let mode = *r.pick(&[Mode::Closures, Mode::Lifo, Mode::Lifo, Mode::Fifo, Mode::Random, Mode::Forget, Mode::Chaos]);
    let n = r.weighted(&[5, 3, 2]) + 1;
    let syncs = if n > 1 { r.range(1, 3) } else { 0 };
    let progs: Vec<Vec<Stmt>> = (0..n).map(|t| gen_thread(&mut r, mode, t, syncs)).collect();
    out.count(&format!("mode={:?}", mode));
    run_case(out, &format!("seed={} i={} mode={:?} threads={}", seed, i, mode, n), global, progs);
}

pub fn run(cfg: &Cfg, out: &mut Out) {
    let root = Rng::new(cfg.seed);
    let _ = GLOBAL_WRAP.set([Wrap::Ref, Wrap::Arced, Wrap::Boxed][(cfg.seed % 3) as usize]);
    type_probes(out);
    // the global recorder can be installed once per process: first everything WITHOUT one …
    let mut global: Option<u32> = None;
    for (tag, progs) in corpus() {
        run_case(out, tag, &mut global, progs);
    }
    let half = cfg.cases / 2;
    for i in 0..half {
        random_case(out, &root, cfg.seed, i, &mut global);
    }
    let mut runs = 0u64;
    if cfg.thorough {
        exhaustive(out, &mut global, 5, 2, &mut runs);
    }
    // … then the installation itself: thread 0 installs (with a local recorder in scope: local still wins; a
    // second attempt fails) while OTHER threads are alive across it — one that emitted before (to the no-op
    // recorder) and emits again after, one whose first emission ever comes after, one with a local recorder
    // installed across the installation.  Barriers put the installation strictly between the two phases.
    {
        use Stmt::*;
        run_case(
            out,
            "set_global_recorder",
            &mut global,
            vec![
                vec![
                    Emit(0),
                    Install(1),
                    Emit(1),
                    Sync,
                    // the installation is made from INSIDE a dispatched call: by recorder 1's `register_counter`
                    EmitCb(1, vec![SetGlobal(GLOBAL_ID), Emit(2)]),
                    Sync,
                    Emit(2),
                    With { rec: 2, body: vec![Emit(3)], catch: true, via_guard: false },
                    Drop(0),
                    Emit(4),
                    SetGlobal(GLOBAL_ID + 1),
                    Emit(21),
                    End(1),
                    End(2),
                    Emit(5),
                ],
                vec![
                    Emit(0),
                    Emit(20),
                    With { rec: 101, body: vec![Emit(2)], catch: true, via_guard: false },
                    Emit(1),
                    Sync,
                    Sync,
                    Emit(0),
                    Emit(20),
                    With { rec: 101, body: vec![Emit(2)], catch: true, via_guard: true },
                    End(101),
                    EmitCb(4, vec![Emit(5)]),
                ],
                vec![Sync, Sync, Emit(0), Install(201), Emit(1), Drop(0), End(201), Emit(21), Emit(3)],
                vec![Install(301), Emit(0), Sync, Sync, Emit(1), Drop(0), Emit(2), End(301), Emit(26)],
            ],
        );
    }
    assert_eq!(global, Some(GLOBAL_ID));
    // … then everything again with the global recorder present
    for (tag, progs) in corpus() {
        run_case(out, tag, &mut global, progs);
    }
    for i in half..cfg.cases {
        random_case(out, &root, cfg.seed, i, &mut global);
    }
    if cfg.thorough {
        exhaustive(out, &mut global, 6, 2, &mut runs);
        exhaustive(out, &mut global, 5, 3, &mut runs);
        out.count_n("exhaustive.programs", runs);
    }
}
