//! C01 — emissions reach exactly the recorder in scope, never one whose scope ended.
//!
//! Real `metrics::with_local_recorder` closures / `metrics::set_default_local_recorder` guards / the real
//! emitting macros, driven by random program trees on 1–3 real OS threads (a fresh thread per case, so the
//! thread-local LOCAL_RECORDER of a case never survives into the next one).  Same ops → Lean model
//! (`localrec …`, lean/MetricsVerif/Model/LocalRec.lean).
//!
//! Safety: the recorder doubles live in a leaked arena (`Box::leak`), so the real code never dereferences a
//! dangling pointer; the END of a recorder's borrow is a harness event (`end <r>`) that clears the double's
//! `in_scope` flag.  A dispatch that reaches a double whose flag is clear is the observed violation.

use crate::util::*;
use metrics::{
    counter, describe_counter, describe_gauge, describe_histogram, gauge, histogram, Counter, Gauge, Histogram, Key,
    KeyName, Level, LocalRecorderGuard, Metadata, Recorder, SharedString, Unit,
};
use std::cell::RefCell;
use std::collections::BTreeMap;
use std::panic::{catch_unwind, resume_unwind, AssertUnwindSafe};
use std::sync::atomic::{AtomicBool, Ordering};
use std::sync::{Arc, Barrier, Once};

// ---------------------------------------------------------------------------------------------
// what a recorder double receives

#[derive(Clone, Debug, PartialEq)]
struct Row {
    describe: bool,
    kind: char,
    name: String,
    labels: Vec<(String, String)>,
    target: Option<String>,
    level: Option<&'static str>,
    module_path: Option<String>,
    unit: Option<String>,
    desc: Option<String>,
}

impl Row {
    fn tok(&self) -> String {
        format!(
            "{}{} {} {} {} {} {} {} {}",
            if self.describe { 'd' } else { 'r' },
            self.kind,
            hexs(&self.name),
            pairs(&self.labels),
            opt_hexs(self.target.as_deref()),
            self.level.unwrap_or("~"),
            opt_hexs(self.module_path.as_deref()),
            opt_hexs(self.unit.as_deref()),
            opt_hexs(self.desc.as_deref())
        )
    }
}

struct Received {
    id: u32,
    owner: Option<usize>,
    in_scope: bool,
    row: Row,
}

thread_local! {
    /// deliveries observed by the CALLING thread since it last cleared the list
    static RECEIVED: RefCell<Vec<Received>> = RefCell::new(vec![]);
}

/// recorder double; lives in a leaked arena for the whole process
struct Double {
    id: u32,
    /// thread (index within the case) that may install it; `None` = the global recorder
    owner: Option<usize>,
    in_scope: AtomicBool,
}

fn level_str(l: &Level) -> &'static str {
    if *l == Level::TRACE {
        "trace"
    } else if *l == Level::DEBUG {
        "debug"
    } else if *l == Level::INFO {
        "info"
    } else if *l == Level::WARN {
        "warn"
    } else {
        "error"
    }
}

impl Double {
    fn new(id: u32, owner: Option<usize>) -> &'static Double {
        Box::leak(Box::new(Double { id, owner, in_scope: AtomicBool::new(true) }))
    }
    fn got(&self, row: Row) {
        let r = Received { id: self.id, owner: self.owner, in_scope: self.in_scope.load(Ordering::SeqCst), row };
        RECEIVED.with(|v| v.borrow_mut().push(r));
    }
    fn desc(&self, kind: char, key: KeyName, unit: Option<Unit>, d: SharedString) {
        self.got(Row {
            describe: true,
            kind,
            name: key.as_str().to_string(),
            labels: vec![],
            target: None,
            level: None,
            module_path: None,
            unit: unit.map(|u| u.as_str().to_string()),
            desc: Some(d.to_string()),
        });
    }
    fn reg(&self, kind: char, key: &Key, m: &Metadata<'_>) {
        self.got(Row {
            describe: false,
            kind,
            name: key.name().to_string(),
            labels: key.labels().map(|l| (l.key().to_string(), l.value().to_string())).collect(),
            target: Some(m.target().to_string()),
            level: Some(level_str(m.level())),
            module_path: m.module_path().map(|s| s.to_string()),
            unit: None,
            desc: None,
        });
    }
}

impl Recorder for Double {
    fn describe_counter(&self, k: KeyName, u: Option<Unit>, d: SharedString) {
        self.desc('c', k, u, d)
    }
    fn describe_gauge(&self, k: KeyName, u: Option<Unit>, d: SharedString) {
        self.desc('g', k, u, d)
    }
    fn describe_histogram(&self, k: KeyName, u: Option<Unit>, d: SharedString) {
        self.desc('h', k, u, d)
    }
    fn register_counter(&self, k: &Key, m: &Metadata<'_>) -> Counter {
        self.reg('c', k, m);
        Counter::noop()
    }
    fn register_gauge(&self, k: &Key, m: &Metadata<'_>) -> Gauge {
        self.reg('g', k, m);
        Gauge::noop()
    }
    fn register_histogram(&self, k: &Key, m: &Metadata<'_>) -> Histogram {
        self.reg('h', k, m);
        Histogram::noop()
    }
}

// ---------------------------------------------------------------------------------------------
// the compiled table of macro forms (same order as `forms` in Model/LocalRec.lean)

fn seven() -> u16 {
    std::hint::black_box(7)
}
fn dynamic_val() -> &'static str {
    std::hint::black_box("xyz")
}
const C_KEY: &str = "c_const";
const CK: &str = "ck";
const CV: &str = "cv";

type FormFn = fn();

static FORMS: &[FormFn] = &[
    /* 0 */ || drop(counter!("c_lit")),
    /* 1 */ || drop(counter!(format!("c_computed_{}", seven()))),
    /* 2 */ || drop(counter!("c_lit", "uvw" => "xyz")),
    /* 3 */ || drop(counter!(format!("c_computed_{}", seven()), "uvw" => "xyz", "a" => "b")),
    /* 4 */ || drop(counter!("c_lit", "dyn" => format!("{}!", dynamic_val()))),
    /* 5 */
    || {
        let labels = [("uvw", format!("{}!", dynamic_val())), ("k2", "v2".to_string())];
        drop(counter!(format!("c_computed_{}", seven()), &labels))
    },
    /* 6 */ || drop(counter!(target: "tgt_a", "c_lit")),
    /* 7 */ || drop(counter!(level: Level::DEBUG, "c_lit")),
    /* 8 */ || drop(counter!(target: "tgt_b", level: Level::WARN, "c_lit", "uvw" => "xyz")),
    /* 9 */ || drop(counter!(C_KEY, CK => CV)),
    /* 10 */ || drop(gauge!("g_lit")),
    /* 11 */ || drop(gauge!(format!("g_computed_{}", seven()), "a" => "1", "b" => "2")),
    /* 12 */
    || {
        let labels = vec![("uvw", format!("{}!", dynamic_val())), ("k2", "v2".to_string())];
        drop(gauge!(target: "tgt_g", "g_lit", &labels))
    },
    /* 13 */ || drop(gauge!(level: Level::TRACE, format!("g_computed_{}", seven()))),
    /* 14 */
    || {
        drop(
            gauge!(target: "tgt_g", level: Level::ERROR, format!("g_computed_{}", seven()), "dyn" => format!("{}!", dynamic_val()), "lit" => "v"),
        )
    },
    /* 15 */ || drop(histogram!("h_lit")),
    /* 16 */ || drop(histogram!("h_lit", "dyn" => format!("{}!", dynamic_val()))),
    /* 17 */
    || {
        let labels = [("uvw", format!("{}!", dynamic_val())), ("k2", "v2".to_string())];
        drop(histogram!(target: "tgt_h", level: Level::ERROR, format!("h_computed_{}", seven()), &labels))
    },
    /* 18 */ || drop(histogram!(level: Level::WARN, "h_lit", "uvw" => "xyz")),
    /* 19 */ || drop(histogram!(target: "tgt_h", format!("h_computed_{}", seven()))),
    /* 20 */ || describe_counter!("c_lit", "a counter"),
    /* 21 */ || describe_counter!("c_lit", Unit::Nanoseconds, "a counter"),
    /* 22 */ || describe_counter!(format!("c_computed_{}", seven()), Unit::Bytes, format!("computed desc {}", seven())),
    /* 23 */ || describe_gauge!("g_lit", "a gauge"),
    /* 24 */ || describe_gauge!(format!("g_computed_{}", seven()), Unit::Percent, "a gauge"),
    /* 25 */ || describe_histogram!(format!("h_computed_{}", seven()), format!("computed desc {}", seven())),
    /* 26 */ || describe_histogram!("h_lit", Unit::Seconds, "a histogram"),
    /* 27 */ || drop(counter!("c_lit", "uvw" => "xyz",)),
    /* 28 */ || describe_counter!("c_lit", Unit::CountPerSecond, "a counter",),
];

const MP: &str = "mv_harness::c01";

/// what each call site spelled, written down independently of the macros
fn expected(form: usize) -> Row {
    fn reg(kind: char, name: &str, labels: &[(&str, &str)], target: &str, level: &'static str) -> Row {
        Row {
            describe: false,
            kind,
            name: name.to_string(),
            labels: labels.iter().map(|(k, v)| (k.to_string(), v.to_string())).collect(),
            target: Some(target.to_string()),
            level: Some(level),
            module_path: Some(MP.to_string()),
            unit: None,
            desc: None,
        }
    }
    fn desc(kind: char, name: &str, unit: Option<&str>, d: &str) -> Row {
        Row {
            describe: true,
            kind,
            name: name.to_string(),
            labels: vec![],
            target: None,
            level: None,
            module_path: None,
            unit: unit.map(|s| s.to_string()),
            desc: Some(d.to_string()),
        }
    }
    let coll: &[(&str, &str)] = &[("uvw", "xyz!"), ("k2", "v2")];
    match form {
        0 => reg('c', "c_lit", &[], MP, "info"),
        1 => reg('c', "c_computed_7", &[], MP, "info"),
        2 => reg('c', "c_lit", &[("uvw", "xyz")], MP, "info"),
        3 => reg('c', "c_computed_7", &[("uvw", "xyz"), ("a", "b")], MP, "info"),
        4 => reg('c', "c_lit", &[("dyn", "xyz!")], MP, "info"),
        5 => reg('c', "c_computed_7", coll, MP, "info"),
        6 => reg('c', "c_lit", &[], "tgt_a", "info"),
        7 => reg('c', "c_lit", &[], MP, "debug"),
        8 => reg('c', "c_lit", &[("uvw", "xyz")], "tgt_b", "warn"),
        9 => reg('c', "c_const", &[("ck", "cv")], MP, "info"),
        10 => reg('g', "g_lit", &[], MP, "info"),
        11 => reg('g', "g_computed_7", &[("a", "1"), ("b", "2")], MP, "info"),
        12 => reg('g', "g_lit", coll, "tgt_g", "info"),
        13 => reg('g', "g_computed_7", &[], MP, "trace"),
        14 => reg('g', "g_computed_7", &[("dyn", "xyz!"), ("lit", "v")], "tgt_g", "error"),
        15 => reg('h', "h_lit", &[], MP, "info"),
        16 => reg('h', "h_lit", &[("dyn", "xyz!")], MP, "info"),
        17 => reg('h', "h_computed_7", coll, "tgt_h", "error"),
        18 => reg('h', "h_lit", &[("uvw", "xyz")], MP, "warn"),
        19 => reg('h', "h_computed_7", &[], "tgt_h", "info"),
        20 => desc('c', "c_lit", None, "a counter"),
        21 => desc('c', "c_lit", Some("nanoseconds"), "a counter"),
        22 => desc('c', "c_computed_7", Some("bytes"), "computed desc 7"),
        23 => desc('g', "g_lit", None, "a gauge"),
        24 => desc('g', "g_computed_7", Some("percent"), "a gauge"),
        25 => desc('h', "h_computed_7", None, "computed desc 7"),
        26 => desc('h', "h_lit", Some("seconds"), "a histogram"),
        27 => reg('c', "c_lit", &[("uvw", "xyz")], MP, "info"),
        28 => desc('c', "c_lit", Some("count_per_second"), "a counter"),
        _ => unreachable!(),
    }
}

// ---------------------------------------------------------------------------------------------
// programs

#[derive(Clone, Debug)]
enum Stmt {
    Emit(usize),
    Install(u32),
    Drop(usize),
    Forget(usize),
    End(u32),
    /// `with_local_recorder(&rec, || body)`; `catch`: a `catch_unwind` sits directly around it
    With { rec: u32, body: Vec<Stmt>, catch: bool },
    Panic,
    Sync,
    SetGlobal(u32),
}

struct VerifPanic;

const GLOBAL_ID: u32 = 900;

struct Ctx {
    tid: usize,
    global: Option<u32>,
    slots: Vec<Option<LocalRecorderGuard<'static>>>,
    doubles: BTreeMap<u32, &'static Double>,
    log: Vec<(String, String)>,
    fails: Vec<(String, String)>,
    counts: Vec<String>,
    /// independent of the model: the thread's live installations, newest last
    spec_stack: Vec<(usize, u32)>,
    had_forget: bool,
    had_nonlifo: bool,
    barrier: Option<Arc<Barrier>>,
    max_depth: usize,
    depth: usize,
}

impl Ctx {
    fn double(&mut self, r: u32) -> &'static Double {
        let tid = self.tid;
        *self.doubles.entry(r).or_insert_with(|| Double::new(r, Some(tid)))
    }
    fn op(&mut self, op: String, ans: String) {
        self.log.push((format!("localrec {} {}", self.tid, op), ans));
    }
    fn cause(&self) -> &'static str {
        match (self.had_nonlifo, self.had_forget) {
            (true, false) => "non-LIFO drop",
            (false, true) => "forgotten guard",
            (true, true) => "non-LIFO drop + forgotten guard",
            (false, false) => "LIFO program, nothing forgotten",
        }
    }
    fn emit(&mut self, f: usize) {
        RECEIVED.with(|v| v.borrow_mut().clear());
        (FORMS[f])();
        let got = RECEIVED.with(|v| std::mem::take(&mut *v.borrow_mut()));
        let want_row = expected(f);
        let lifo = !(self.had_forget || self.had_nonlifo);
        let here = format!("thread {} form {} after {} ops", self.tid, f, self.log.len());
        if got.len() > 1 {
            self.fails.push(("emission delivered more than once".into(), format!("{} deliveries; {}", got.len(), here)));
        }
        let ans = match got.first() {
            None => format!("noop stale=0 lifo={} {}", lifo as u8, want_row.tok()),
            Some(r) => {
                let tgt = match r.owner {
                    None => format!("glob:{}", r.id),
                    Some(_) => format!("loc:{}", r.id),
                };
                format!("{} stale={} lifo={} {}", tgt, (!r.in_scope) as u8, lifo as u8, r.row.tok())
            }
        };
        // implementation-side oracles
        if let Some(r) = got.first() {
            if let Some(o) = r.owner {
                if o != self.tid {
                    self.fails.push((
                        "a locally installed recorder was visible on another thread".into(),
                        format!("recorder {} of thread {} received an emission of thread {}; {}", r.id, o, self.tid, here),
                    ));
                }
            }
            if !r.in_scope {
                self.fails.push((
                    format!("emission dispatched to a recorder after its scope ended ({})", self.cause()),
                    format!("recorder {}; {}", r.id, here),
                ));
                self.counts.push(format!("stale.dispatch.{}", self.cause().replace(' ', "_")));
            }
            if r.row != want_row {
                self.fails.push((
                    "delivered fields differ from what the call site spelled".into(),
                    format!("got {:?} want {:?}; {}", r.row, want_row, here),
                ));
            }
        }
        if lifo {
            // the property's own statement: innermost live local, else global, else noop
            let want = match self.spec_stack.last() {
                Some((_, r)) => format!("loc:{}", r),
                None => match self.global {
                    Some(g) => format!("glob:{}", g),
                    None => "noop".to_string(),
                },
            };
            let have = ans.split(' ').next().unwrap().to_string();
            if have != want {
                self.fails.push((
                    "emission did not reach the innermost recorder in scope (LIFO program, nothing forgotten)".into(),
                    format!("reached {} expected {}; {}", have, want, here),
                ));
            }
        }
        self.counts.push(format!("target.{}", ans.split(|c| c == ':' || c == ' ').next().unwrap()));
        self.counts.push(format!("form.{:02}", f));
        self.op(format!("emit {}", f), ans);
    }
    fn ended_guard(&mut self, gid: usize) {
        if self.spec_stack.last().map(|x| x.0) != Some(gid) {
            self.had_nonlifo = true;
        }
        self.spec_stack.retain(|x| x.0 != gid);
    }
}

fn exec(cx: &mut Ctx, stmts: &[Stmt]) {
    for s in stmts {
        match s {
            Stmt::Emit(f) => cx.emit(*f),
            Stmt::Install(r) => {
                let d = cx.double(*r);
                let g = metrics::set_default_local_recorder(d);
                let gid = cx.slots.len();
                cx.slots.push(Some(g));
                cx.spec_stack.push((gid, *r));
                cx.op(format!("install {}", r), format!("g{}", gid));
            }
            Stmt::Drop(g) => {
                let guard = cx.slots[*g].take().expect("generator: guard is live");
                drop(guard);
                cx.ended_guard(*g);
                cx.op(format!("drop {}", g), "ok".into());
            }
            Stmt::Forget(g) => {
                let guard = cx.slots[*g].take().expect("generator: guard is live");
                std::mem::forget(guard);
                cx.had_forget = true;
                cx.spec_stack.retain(|x| x.0 != *g);
                cx.op(format!("forget {}", g), "ok".into());
            }
            Stmt::End(r) => {
                // the borrow `&r` handed to the guards ends here
                cx.double(*r).in_scope.store(false, Ordering::SeqCst);
                cx.op(format!("end {}", r), "ok".into());
            }
            Stmt::With { rec, body, catch } => {
                let d = cx.double(*rec);
                let gid = cx.slots.len();
                cx.slots.push(None);
                cx.spec_stack.push((gid, *rec));
                cx.op(format!("enter {}", rec), format!("g{}", gid));
                cx.depth += 1;
                cx.max_depth = cx.max_depth.max(cx.depth);
                let res = catch_unwind(AssertUnwindSafe(|| metrics::with_local_recorder(d, || exec(&mut *cx, body))));
                cx.depth -= 1;
                cx.ended_guard(gid);
                match res {
                    Ok(()) => cx.op("exit".into(), "ok".into()),
                    Err(p) => {
                        if !p.is::<VerifPanic>() {
                            resume_unwind(p);
                        }
                        cx.op("unwind".into(), "ok".into());
                        cx.counts.push("closure.unwound".into());
                        if !*catch {
                            // no catch_unwind at this level in the modelled program: keep unwinding
                            resume_unwind(p);
                        }
                    }
                }
            }
            Stmt::Panic => std::panic::panic_any(VerifPanic),
            Stmt::Sync => {
                if let Some(b) = &cx.barrier {
                    b.wait();
                }
            }
            Stmt::SetGlobal(r) => {
                let ok = metrics::set_global_recorder(Double::new(*r, None)).is_ok();
                if ok {
                    cx.global = Some(*r);
                }
                cx.op(format!("setglobal {}", r), if ok { "ok".into() } else { "err".into() });
            }
        }
    }
}

// ---------------------------------------------------------------------------------------------
// generator

#[derive(Clone, Copy, Debug, PartialEq)]
enum Mode {
    /// closures only
    Closures,
    /// closures + guards, always dropped newest-first, nothing forgotten
    Lifo,
    /// oldest live guard first
    Fifo,
    /// any live guard, anywhere
    Random,
    /// newest-first like `Lifo`, but some guards are given to `mem::forget` instead of being dropped
    Forget,
    /// any live guard, dropped or forgotten
    Chaos,
}

struct Gen<'a> {
    r: &'a mut Rng,
    mode: Mode,
    tid: usize,
    next_gid: usize,
    next_rec: u32,
    /// live explicit guards (gid, rec, level at which it was installed), oldest first
    live: Vec<(usize, u32, usize)>,
    /// guard values (explicit live + open closures) per recorder
    borrows: BTreeMap<u32, usize>,
    ended: Vec<u32>,
    budget: usize,
    max_level: usize,
}

impl<'a> Gen<'a> {
    fn pick_rec(&mut self) -> u32 {
        let known: Vec<u32> = self.borrows.keys().copied().filter(|r| !self.ended.contains(r)).collect();
        if !known.is_empty() && self.r.chance(2, 5) {
            *self.r.pick(&known)
        } else {
            let r = self.next_rec;
            self.next_rec += 1;
            self.borrows.insert(r, 0);
            r
        }
    }
    fn maybe_end(&mut self, out: &mut Vec<Stmt>) {
        let cands: Vec<u32> =
            self.borrows.iter().filter(|(r, n)| **n == 0 && !self.ended.contains(r)).map(|(r, _)| *r).collect();
        for r in cands {
            if self.r.chance(1, 2) {
                self.ended.push(r);
                out.push(Stmt::End(r));
            }
        }
    }
    fn close(&mut self, idx: usize, forget: bool, out: &mut Vec<Stmt>) {
        let (g, rec, _) = self.live.remove(idx);
        *self.borrows.get_mut(&rec).unwrap() -= 1;
        out.push(if forget { Stmt::Forget(g) } else { Stmt::Drop(g) });
    }
    /// close every live explicit guard installed at `level` or deeper, newest first
    fn close_level_lifo(&mut self, level: usize, out: &mut Vec<Stmt>) {
        while let Some(idx) = self.live.iter().rposition(|x| x.2 >= level) {
            let f = self.mode == Mode::Forget && self.r.chance(1, 2);
            self.close(idx, f, out);
        }
    }
    /// returns (statements, body ended by a panic)
    fn body(&mut self, level: usize, len: usize) -> (Vec<Stmt>, bool) {
        let mut out = vec![];
        let strict = matches!(self.mode, Mode::Closures | Mode::Lifo | Mode::Forget);
        for _ in 0..len {
            if self.budget == 0 {
                break;
            }
            self.budget -= 1;
            let w_install = if self.mode == Mode::Closures { 0 } else { 4 };
            let w_close = if self.live.is_empty() { 0 } else { 4 };
            let w_with = if level < self.max_level { 4 } else { 0 };
            let w_panic = if level > 0 { 1 } else { 0 };
            match self.r.weighted(&[6, w_install, w_close, w_with, w_panic]) {
                0 => out.push(Stmt::Emit(self.r.below(FORMS.len()))),
                1 => {
                    let rec = self.pick_rec();
                    let g = self.next_gid;
                    self.next_gid += 1;
                    self.live.push((g, rec, level));
                    *self.borrows.get_mut(&rec).unwrap() += 1;
                    out.push(Stmt::Install(rec));
                    if self.r.chance(2, 3) {
                        out.push(Stmt::Emit(self.r.below(FORMS.len())));
                    }
                }
                2 => {
                    match self.mode {
                        Mode::Closures => {}
                        Mode::Lifo | Mode::Forget => {
                            // only the newest guard of THIS closure level is on top of the stack
                            if let Some(idx) = self.live.iter().rposition(|x| x.2 == level) {
                                if idx == self.live.len() - 1 {
                                    let f = self.mode == Mode::Forget && self.r.chance(2, 3);
                                    self.close(idx, f, &mut out);
                                }
                            }
                        }
                        Mode::Fifo => self.close(0, false, &mut out),
                        Mode::Random => {
                            let i = self.r.below(self.live.len());
                            self.close(i, false, &mut out)
                        }
                        Mode::Chaos => {
                            let i = self.r.below(self.live.len());
                            let f = self.r.chance(1, 3);
                            self.close(i, f, &mut out)
                        }
                    }
                    self.maybe_end(&mut out);
                    if self.r.chance(2, 3) {
                        out.push(Stmt::Emit(self.r.below(FORMS.len())));
                    }
                }
                3 => {
                    let rec = self.pick_rec();
                    self.next_gid += 1;
                    *self.borrows.get_mut(&rec).unwrap() += 1;
                    let n = self.r.range(1, 5);
                    let (mut b, panicked) = self.body(level + 1, n);
                    if !panicked && strict {
                        let mut tail = vec![];
                        self.close_level_lifo(level + 1, &mut tail);
                        b.extend(tail);
                    }
                    *self.borrows.get_mut(&rec).unwrap() -= 1;
                    // who catches: level 0 always; in strict modes a level that still owns guards must catch
                    let must_catch = level == 0 || (strict && self.live.iter().any(|x| x.2 >= level));
                    let catch = !panicked || must_catch || self.r.chance(1, 2);
                    out.push(Stmt::With { rec, body: b, catch });
                    if panicked && !catch {
                        return (out, true);
                    }
                    self.maybe_end(&mut out);
                    if self.r.chance(2, 3) {
                        out.push(Stmt::Emit(self.r.below(FORMS.len())));
                    }
                }
                _ => {
                    if strict {
                        self.close_level_lifo(level, &mut out);
                    }
                    out.push(Stmt::Panic);
                    return (out, true);
                }
            }
        }
        (out, false)
    }
    fn finish(&mut self, out: &mut Vec<Stmt>) {
        out.push(Stmt::Emit(self.r.below(FORMS.len())));
        while !self.live.is_empty() {
            match self.mode {
                Mode::Closures | Mode::Lifo => self.close(self.live.len() - 1, false, out),
                Mode::Fifo => self.close(0, false, out),
                Mode::Random => {
                    let i = self.r.below(self.live.len());
                    self.close(i, false, out)
                }
                Mode::Chaos => {
                    let i = self.r.below(self.live.len());
                    let f = self.r.chance(1, 3);
                    self.close(i, f, out)
                }
                Mode::Forget => {
                    let f = self.r.chance(1, 2);
                    self.close(self.live.len() - 1, f, out)
                }
            }
            if self.r.chance(1, 3) {
                out.push(Stmt::Emit(self.r.below(FORMS.len())));
            }
        }
        // every scope and every borrow has ended: nothing local may be reachable any more
        let rest: Vec<u32> = self.borrows.keys().copied().filter(|r| !self.ended.contains(r)).collect();
        for r in rest {
            self.ended.push(r);
            out.push(Stmt::End(r));
        }
        out.push(Stmt::Emit(self.r.below(20)));
        out.push(Stmt::Emit(20 + self.r.below(FORMS.len() - 20)));
    }
}

fn gen_thread(r: &mut Rng, mode: Mode, tid: usize, syncs: usize) -> Vec<Stmt> {
    let mut g = Gen {
        r,
        mode,
        tid,
        next_gid: 0,
        next_rec: (tid as u32) * 100 + 1,
        live: vec![],
        borrows: BTreeMap::new(),
        ended: vec![],
        budget: 40,
        max_level: 0,
    };
    g.max_level = g.r.range(1, 5);
    let _ = g.tid;
    let mut out = vec![];
    for seg in 0..=syncs {
        let n = g.r.range(2, 8);
        let (b, _) = g.body(0, n);
        out.extend(b);
        if seg < syncs {
            out.push(Stmt::Sync);
            out.push(Stmt::Emit(g.r.below(FORMS.len())));
        }
    }
    g.finish(&mut out);
    out
}

// ---------------------------------------------------------------------------------------------
// running a case

struct ThreadResult {
    log: Vec<(String, String)>,
    fails: Vec<(String, String)>,
    counts: Vec<String>,
    max_depth: usize,
    had_forget: bool,
    had_nonlifo: bool,
    global: Option<u32>,
}

static HOOK: Once = Once::new();

fn run_case(out: &mut Out, tag: &str, global: &mut Option<u32>, progs: Vec<Vec<Stmt>>) {
    HOOK.call_once(|| {
        let prev = std::panic::take_hook();
        std::panic::set_hook(Box::new(move |info| {
            if !info.payload().is::<VerifPanic>() {
                prev(info)
            }
        }));
    });
    out.case(tag);
    out.op(&format!("localrec init {}", global.map_or("~".to_string(), |g| g.to_string())), "ok");
    let n = progs.len();
    let barrier = if n > 1 { Some(Arc::new(Barrier::new(n))) } else { None };
    let g0 = *global;
    // every case runs on fresh OS threads: their LOCAL_RECORDER starts empty and dies with them
    let handles: Vec<_> = progs
        .into_iter()
        .enumerate()
        .map(|(tid, prog)| {
            let barrier = barrier.clone();
            std::thread::spawn(move || {
                let mut cx = Ctx {
                    tid,
                    global: g0,
                    slots: vec![],
                    doubles: BTreeMap::new(),
                    log: vec![],
                    fails: vec![],
                    counts: vec![],
                    spec_stack: vec![],
                    had_forget: false,
                    had_nonlifo: false,
                    barrier,
                    max_depth: 0,
                    depth: 0,
                };
                exec(&mut cx, &prog);
                // the random generator closes every guard; the exhaustive programs may end with guards still open:
                // the thread ends here, nothing observes its LOCAL_RECORDER any more, so they are simply leaked
                for g in cx.slots.drain(..).flatten() {
                    std::mem::forget(g);
                }
                ThreadResult {
                    log: cx.log,
                    fails: cx.fails,
                    counts: cx.counts,
                    max_depth: cx.max_depth,
                    had_forget: cx.had_forget,
                    had_nonlifo: cx.had_nonlifo,
                    global: cx.global,
                }
            })
        })
        .collect();
    let mut fails = vec![];
    let mut depth = 0;
    let (mut forget, mut nonlifo) = (false, false);
    for (tid, h) in handles.into_iter().enumerate() {
        match h.join() {
            Ok(tr) => {
                for (op, ans) in &tr.log {
                    out.op(op, ans);
                }
                for c in &tr.counts {
                    out.count(c);
                }
                fails.extend(tr.fails);
                depth = depth.max(tr.max_depth);
                forget |= tr.had_forget;
                nonlifo |= tr.had_nonlifo;
                if tr.global.is_some() {
                    *global = tr.global;
                }
            }
            Err(_) => fails.push(("harness thread died".to_string(), format!("thread {}", tid))),
        }
    }
    out.count(&format!("threads={}", n));
    out.count(&format!("depth={}", depth.min(5)));
    out.count(&format!("history.{}", match (nonlifo, forget) {
        (false, false) => "lifo",
        (true, false) => "nonlifo",
        (false, true) => "forget",
        (true, true) => "nonlifo+forget",
    }));
    out.count(&format!("global={}", g0.is_some()));
    if depth >= 2 || forget || nonlifo || n > 1 {
        out.nontrivial();
    }
    for (w, d) in fails {
        out.oracle_fail(&w, &d);
    }
}

fn corpus() -> Vec<(&'static str, Vec<Vec<Stmt>>)> {
    use Stmt::*;
    vec![
        // K-C01-fifo: both scopes and both borrows ended, yet recorder 1 is still installed
        ("corpus K-C01-fifo", vec![vec![Install(1), Install(2), Drop(0), Drop(1), End(1), End(2), Emit(0)]]),
        // K-C01-forget: a forgotten guard is never undone
        ("corpus K-C01-forget", vec![vec![Install(1), Forget(0), End(1), Emit(0)]]),
        // the closure form of the FIFO defect: a guard created inside a closure outlives the closure
        (
            "corpus closure-escape",
            vec![vec![With { rec: 1, body: vec![Install(2), Emit(2)], catch: true }, Emit(3), Drop(1), End(1), End(2), Emit(21)]],
        ),
        // depth-3 nesting with a panic in the innermost closure, caught two levels up
        (
            "corpus depth3-panic",
            vec![vec![
                Emit(0),
                With {
                    rec: 1,
                    body: vec![
                        Emit(1),
                        With {
                            rec: 2,
                            body: vec![Emit(2), With { rec: 3, body: vec![Emit(8), Panic], catch: false }, Emit(3)],
                            catch: true,
                        },
                        Emit(4),
                    ],
                    catch: true,
                },
                Emit(5),
                End(1),
                End(2),
                End(3),
                Emit(22),
            ]],
        ),
        // the repository's own test `local_recorder_restored_when_dropped`
        (
            "corpus repo-test",
            vec![vec![
                Install(1),
                Emit(0),
                Install(2),
                Emit(0),
                With { rec: 3, body: vec![Emit(0)], catch: true },
                Emit(0),
                Drop(1),
                Emit(0),
                Drop(0),
                End(1),
                End(2),
                End(3),
                Emit(0),
            ]],
        ),
        // same recorder installed twice, nested
        ("corpus same-rec-twice", vec![vec![Install(1), Install(1), Emit(9), Drop(1), Emit(9), Drop(0), End(1), Emit(9)]]),
        // two threads: thread 1 must never see thread 0's recorder
        (
            "corpus isolation",
            vec![
                vec![Install(1), Sync, Emit(0), Sync, Drop(0), End(1), Emit(0)],
                vec![Emit(0), Sync, Emit(1), With { rec: 101, body: vec![Emit(2)], catch: true }, Sync, End(101), Emit(3)],
            ],
        ),
        // every form once, inside a closure
        ("corpus all-forms", vec![vec![With { rec: 1, body: (0..FORMS.len()).map(Emit).collect(), catch: true }]]),
        ("corpus all-forms-outside", vec![(0..FORMS.len()).map(Emit).collect()]),
    ]
}

/// all programs of one thread over `install r` (r < recs), `drop g`, `forget g`, `emit` with at most `len` ops,
/// each closed by "end every recorder that may end; emit"
fn exhaustive(out: &mut Out, global: &mut Option<u32>, len: usize, recs: u32, runs: &mut u64) {
    fn go(
        out: &mut Out,
        global: &mut Option<u32>,
        prog: &mut Vec<Stmt>,
        live: &mut Vec<(usize, u32)>,
        closed: &mut Vec<(usize, u32)>,
        next_gid: usize,
        len: usize,
        recs: u32,
        runs: &mut u64,
    ) {
        // run the program as it stands (only if its last op is not an emit: those are covered by the tail)
        if !prog.is_empty() && !matches!(prog.last(), Some(Stmt::Emit(_))) {
            let mut p = prog.clone();
            for r in 1..=recs {
                if !live.iter().any(|x| x.1 == r) && closed.iter().any(|x| x.1 == r) {
                    p.push(Stmt::End(r));
                }
            }
            p.push(Stmt::Emit(2));
            *runs += 1;
            run_case(out, "exhaustive", global, vec![p]);
        }
        if prog.len() == len {
            return;
        }
        for r in 1..=recs {
            prog.push(Stmt::Install(r));
            live.push((next_gid, r));
            go(out, global, prog, live, closed, next_gid + 1, len, recs, runs);
            live.pop();
            prog.pop();
        }
        for i in 0..live.len() {
            for forget in [false, true] {
                let x = live.remove(i);
                closed.push(x);
                prog.push(if forget { Stmt::Forget(x.0) } else { Stmt::Drop(x.0) });
                go(out, global, prog, live, closed, next_gid, len, recs, runs);
                prog.pop();
                closed.pop();
                live.insert(i, x);
            }
        }
        if !matches!(prog.last(), Some(Stmt::Emit(_))) {
            prog.push(Stmt::Emit(0));
            go(out, global, prog, live, closed, next_gid, len, recs, runs);
            prog.pop();
        }
    }
    go(out, global, &mut vec![], &mut vec![], &mut vec![], 0, len, recs, runs);
}

fn random_case(out: &mut Out, root: &Rng, seed: u64, i: usize, global: &mut Option<u32>) {
    let mut r = root.fork(i as u64);
    let mode = *r.pick(&[Mode::Closures, Mode::Lifo, Mode::Lifo, Mode::Fifo, Mode::Random, Mode::Forget, Mode::Chaos]);
    let n = r.weighted(&[5, 3, 2]) + 1;
    let syncs = if n > 1 { r.range(1, 3) } else { 0 };
    let progs: Vec<Vec<Stmt>> = (0..n).map(|t| gen_thread(&mut r, mode, t, syncs)).collect();
    out.count(&format!("mode={:?}", mode));
    run_case(out, &format!("seed={} i={} mode={:?} threads={}", seed, i, mode, n), global, progs);
}

pub fn run(cfg: &Cfg, out: &mut Out) {
    let root = Rng::new(cfg.seed);
    // the global recorder can be installed once per process: first everything WITHOUT one …
    let mut global: Option<u32> = None;
    for (tag, progs) in corpus() {
        run_case(out, tag, &mut global, progs);
    }
    let half = cfg.cases / 2;
    for i in 0..half {
        random_case(out, &root, cfg.seed, i, &mut global);
    }
    let mut runs = 0u64;
    if cfg.thorough {
        exhaustive(out, &mut global, 5, 2, &mut runs);
    }
    // … then the installation itself, with a local recorder in scope (local still wins), a second attempt fails …
    {
        use Stmt::*;
        run_case(
            out,
            "set_global_recorder",
            &mut global,
            vec![vec![
                Emit(0),
                Install(1),
                Emit(1),
                SetGlobal(GLOBAL_ID),
                Emit(2),
                With { rec: 2, body: vec![Emit(3)], catch: true },
                Drop(0),
                Emit(4),
                SetGlobal(GLOBAL_ID + 1),
                Emit(21),
                End(1),
                End(2),
                Emit(5),
            ]],
        );
    }
    assert_eq!(global, Some(GLOBAL_ID));
    // … then everything again with the global recorder present
    for (tag, progs) in corpus() {
        run_case(out, tag, &mut global, progs);
    }
    for i in half..cfg.cases {
        random_case(out, &root, cfg.seed, i, &mut global);
    }
    if cfg.thorough {
        exhaustive(out, &mut global, 6, 2, &mut runs);
        exhaustive(out, &mut global, 5, 3, &mut runs);
        out.count_n("exhaustive.programs", runs);
    }
}
