//! Sessions against a real `PrometheusRecorder`: register / update / describe / upkeep / render.
//! Shared by C07 (values), C08 (hostile strings) and C15 (buckets, matchers).
//!
//! For every session the same ops go to the Lean model (`prom …`), whose `render` answer is compared
//! with a canonical, order-independent view of the real `render()` text, and two implementation-side
//! oracles run: the strict exposition reader (expo.rs) and an independent tally of what was recorded.
#![allow(dead_code)]

use crate::c08::{unit_tok, UNITS};
use crate::expo::{self, PLine};
use crate::util::*;
use metrics::{Key, Label, Recorder, Unit};
use metrics_exporter_prometheus::{Matcher, PrometheusBuilder, PrometheusHandle, PrometheusRecorder};
use std::collections::{BTreeMap, HashSet};

static META: metrics::Metadata<'static> = metrics::Metadata::new("mv", metrics::Level::INFO, None);

#[derive(Clone, Copy, PartialEq)]
pub enum Flavour {
    Values,  // C07
    Strings, // C08
    Buckets, // C15
}

/// `n / 1024` as f64 (exact for |n| < 2^53)
pub fn dy(n: i64) -> f64 {
    n as f64 / 1024.0
}

/// canonical token of a rendered / recorded f64: `d<n>` when it is exactly n/1024, else `b<bits>`
pub fn val_tok(v: f64) -> String {
    let s = v * 1024.0;
    if v.is_finite() && s.fract() == 0.0 && s.abs() < 9.0e15 && !(v == 0.0 && v.is_sign_negative()) {
        format!("d{}", s as i64)
    } else {
        format!("b{}", v.to_bits())
    }
}

fn own_sanitize(s: &str, allow_colon: bool) -> String {
    s.chars()
        .enumerate()
        .map(|(i, c)| {
            let ok = c == '_' || (allow_colon && c == ':') || c.is_ascii_alphabetic() || (i > 0 && c.is_ascii_digit());
            if ok {
                c
            } else {
                '_'
            }
        })
        .collect()
}

fn unit_suffix(u: Option<Unit>) -> String {
    match u {
        None | Some(Unit::Count) => String::new(),
        Some(Unit::Percent) => "_ratio".into(),
        Some(u) => format!("_{}", u.as_str()),
    }
}

/// canonical view of an exposition text; mirrors `Driver/Prom.lean: canonical`
pub fn canonical(text: &str) -> String {
    let mut items: Vec<String> = vec![];
    let mut cur = String::new();
    let mut cur_ty = String::new();
    let body = text.strip_suffix('\n').unwrap_or(text);
    if text.is_empty() {
        return "empty".into();
    }
    for line in body.split('\n') {
        match expo::parse_line(line) {
            Ok(PLine::Blank) => {}
            Ok(PLine::Help { name, doc }) => items.push(format!("H {} {}", hexs(&name), hexs(&doc))),
            Ok(PLine::Type { name, ty }) => {
                items.push(format!("T {} {}", hexs(&name), ty));
                cur = name;
                cur_ty = ty;
            }
            Ok(PLine::Sample { name, labels, value }) => {
                let is_q = cur_ty == "summary" && name == cur && labels.iter().any(|(k, _)| k == "quantile");
                let ls = list(labels.iter().map(|(k, v)| {
                    let v2 = if k == "le" && cur_ty == "histogram" && v != "+Inf" {
                        match v.parse::<f64>() {
                            Ok(f) => val_tok(f),
                            Err(_) => v.clone(),
                        }
                    } else {
                        v.clone()
                    };
                    format!("{}:{}", hexs(k), hexs(&v2))
                }));
                let literal = cur_ty == "counter" || name.ends_with("_bucket") && cur_ty == "histogram"
                    || (name.ends_with("_count") && name != cur);
                let vt = if is_q {
                    "q".to_string()
                } else if literal {
                    value.clone() // u64 text, compared literally
                } else {
                    val_tok(value.parse::<f64>().unwrap())
                };
                items.push(format!("S {} {} {} {}", hexs(&cur), hexs(&name), ls, vt));
            }
            Err(_) => items.push(format!("unparseable {}", hexs(&format!("{}\n", line)))),
        }
    }
    items.sort();
    if items.is_empty() {
        "empty".into()
    } else {
        items.join(";")
    }
}

#[derive(Clone)]
struct Series {
    kind: u8, // 0 counter 1 gauge 2 histogram
    name: String,
    labels: Vec<(String, String)>,
    key: Key,
    // oracle tallies
    c_val: u64,
    g_val: f64,
    g_wild: bool,
    h_count: u64,
    h_sum: i64,
    h_vals: Vec<i64>,
}

fn key_tok(s: &Series) -> String {
    format!("{} {}", hexs(&s.name), pairs(&s.labels))
}

pub struct SessionCfg {
    pub unit_suffix: bool,
    pub globals: Vec<(String, String)>,
    pub buckets: Option<Vec<i64>>,
    pub overrides: Vec<(u8, String, Vec<i64>)>, // 0 full 1 prefix 2 suffix
    pub quantiles: Option<Vec<f64>>,
    /// C07 only: `set_bucket_duration` (ns) / `set_bucket_count` of the rolling summaries
    pub bucket_duration_ns: Option<u64>,
    pub bucket_count: Option<u32>,
}

fn build(cfg: &SessionCfg) -> (PrometheusRecorder, PrometheusHandle) {
    let mut b = PrometheusBuilder::new().set_enable_unit_suffix(cfg.unit_suffix);
    for (k, v) in &cfg.globals {
        b = b.add_global_label(k.clone(), v.clone());
    }
    if let Some(bs) = &cfg.buckets {
        b = b.set_buckets(&bs.iter().map(|n| dy(*n)).collect::<Vec<_>>()).unwrap();
    }
    for (kind, pat, bs) in &cfg.overrides {
        let m = match kind {
            0 => Matcher::Full(pat.clone()),
            1 => Matcher::Prefix(pat.clone()),
            _ => Matcher::Suffix(pat.clone()),
        };
        b = b.set_buckets_for_metric(m, &bs.iter().map(|n| dy(*n)).collect::<Vec<_>>()).unwrap();
    }
    if let Some(q) = &cfg.quantiles {
        b = b.set_quantiles(q).unwrap();
    }
    if let Some(ns) = cfg.bucket_duration_ns {
        b = b.set_bucket_duration(std::time::Duration::from_nanos(ns)).unwrap();
    }
    if let Some(c) = cfg.bucket_count {
        b = b.set_bucket_count(std::num::NonZeroU32::new(c).unwrap());
    }
    let rec = b.build_recorder();
    let h = rec.handle();
    (rec, h)
}

fn ints(v: &[i64]) -> String {
    v.iter().map(|n| n.to_string()).collect::<Vec<_>>().join("+")
}

fn gen_bounds(r: &mut Rng) -> Vec<i64> {
    gen_bounds_n(r, 5)
}

/// wide shapes: in half of the cases whole numbers (`1`, `5`, `250` — what bounds look like in practice, and where
/// `Display`, `Debug` and `{:.1}` of an f64 differ) or multiples of 1/4
fn gen_bounds_wide(r: &mut Rng, max: usize) -> Vec<i64> {
    let mut v = gen_bounds_n(r, max);
    if r.chance(1, 2) {
        let unit: i64 = if r.chance(2, 3) { 1024 } else { 256 };
        for x in v.iter_mut() {
            *x = x.div_euclid(unit) * unit;
        }
        v.dedup();
    }
    v
}

fn gen_bounds_n(r: &mut Rng, max: usize) -> Vec<i64> {
    let n = r.range(1, max);
    let mut v: Vec<i64> = vec![];
    let mut cur: i64 = r.range(0, 4096) as i64 - 2048;
    for _ in 0..n {
        v.push(cur);
        cur += r.range(1, 3000) as i64;
    }
    v
}

fn pick_name(r: &mut Rng, fl: Flavour) -> String {
    match fl {
        Flavour::Strings => crate::c08::hostile_string(r, true),
        _ => {
            let base = ["lat", "reqs", "http_requests", "mem", "q.depth", "io-wait", "a", "svc:rate"];
            let mut s = r.pick_str(&base).to_string();
            if r.chance(1, 2) {
                s.push_str(r.pick_str(&["_total", ".ms", "2", "_x"]));
            }
            s
        }
    }
}
fn pick_lname(r: &mut Rng, fl: Flavour) -> String {
    match fl {
        Flavour::Strings => crate::c08::hostile_string(r, true),
        _ => r.pick_str(&["host", "code", "path", "zone", "k-1", "9x"]).to_string(),
    }
}
fn pick_lval(r: &mut Rng, fl: Flavour) -> String {
    match fl {
        Flavour::Strings => crate::c08::hostile_string(r, false),
        _ => r.pick_str(&["a", "b", "200", "", "/x y", "eu"]).to_string(),
    }
}

/// Upper limits of the shape of a session (how many of each thing the generator may make). `Shape::standard` is
/// what `session` has always used (same draws, so the streams of C07 / C15 are unchanged); C08 also runs wide sessions.
#[derive(Clone, Copy)]
pub struct Shape {
    pub max_globals: usize,
    pub max_over: usize,
    pub max_metrics: usize,
    pub max_series: usize,
    pub max_own_labels: usize,
    pub max_bounds: usize,
    /// repeated `add_global_label` / repeated matcher also outside C07; `le` texts compared as text
    pub wide: bool,
}

impl Shape {
    pub fn standard(fl: Flavour) -> Shape {
        Shape {
            max_globals: 2,
            max_over: if fl == Flavour::Buckets { 3 } else { 1 },
            max_metrics: 5,
            max_series: 3,
            max_own_labels: 3,
            max_bounds: 5,
            wide: false,
        }
    }
}

/// One session. Returns nothing; everything goes to `out`.
pub fn session(r: &mut Rng, out: &mut Out, fl: Flavour) {
    session_shaped(r, out, fl, &Shape::standard(fl))
}

pub fn session_shaped(r: &mut Rng, out: &mut Out, fl: Flavour, shape: &Shape) {
    // ---- configuration
    let v7 = fl == Flavour::Values;
    let rep = v7 || shape.wide;
    let mut globals: Vec<(String, String)> = vec![];
    for _ in 0..r.below(shape.max_globals + 1) {
        let k = pick_lname(r, fl);
        let sk = own_sanitize(&k, false);
        if sk != "le" && sk != "quantile" && !globals.iter().any(|(g, _)| own_sanitize(g, false) == sk) {
            globals.push((k, pick_lval(r, fl)));
        }
    }
    if rep && !globals.is_empty() && r.chance(1, 3) {
        // `add_global_label` with a name given before: the label keeps its place and takes the last value
        // (`globals` is the list of builder calls as made; the model folds it the same way)
        for _ in 0..r.range(1, 2) {
            let k = globals[r.below(globals.len())].0.clone();
            globals.push((k, pick_lval(r, fl)));
        }
        out.count("cfg.global_label_repeated");
    }
    let buckets = if r.chance(1, 3) { Some((if shape.wide { gen_bounds_wide(r, shape.max_bounds) } else { gen_bounds_n(r, shape.max_bounds) })) } else { None };
    let nover = r.below(shape.max_over + 1);
    // ---- metrics
    let nmetrics = r.range(1, shape.max_metrics);
    let mut names: Vec<(String, String)> = vec![]; // (raw, sanitised)
    let mut tries = 0;
    while names.len() < nmetrics && tries < 50 {
        tries += 1;
        let raw = pick_name(r, fl);
        let s = own_sanitize(&raw, true);
        // distinct families: no sanitised name equals, or extends by `_…`, another one (unit / type suffixes)
        let clash = names.iter().any(|(_, o)| {
            *o == s || s.starts_with(&format!("{}_", o)) || o.starts_with(&format!("{}_", s))
        });
        if !clash {
            names.push((raw, s));
        }
    }
    let mut overrides: Vec<(u8, String, Vec<i64>)> = vec![];
    for _ in 0..nover {
        let kind = r.below(3) as u8;
        let base = if r.chance(2, 3) { names[r.below(names.len())].0.clone() } else { pick_name(r, fl) };
        let chars: Vec<char> = base.chars().collect();
        let pat: String = match kind {
            0 => base.clone(),
            1 => chars[..r.range(0, chars.len())].iter().collect(),
            _ => chars[r.range(0, chars.len())..].iter().collect(),
        };
        // HashMap<Matcher, _>: the same matcher twice would just overwrite; keep them distinct (after sanitising)
        let key = (kind, own_sanitize(&pat, true));
        if !pat.is_empty() && !overrides.iter().any(|(k, p, _)| (*k, own_sanitize(p, true)) == key) {
            overrides.push((kind, pat, (if shape.wide { gen_bounds_wide(r, shape.max_bounds) } else { gen_bounds_n(r, shape.max_bounds) })));
        }
    }
    if rep && !overrides.is_empty() && r.chance(1, 3) {
        // the same matcher again (`HashMap::insert`: the later bounds replace the earlier ones), also through a
        // different spelling with the same sanitised form
        let (k, p, _) = overrides[r.below(overrides.len())].clone();
        let p2 = if r.chance(1, 2) { p.replace('.', "_").replace('-', "_") } else { p };
        overrides.push((k, p2, (if shape.wide { gen_bounds_wide(r, shape.max_bounds) } else { gen_bounds_n(r, shape.max_bounds) })));
        out.count("cfg.matcher_repeated");
    }
    let mut quantiles = if r.chance(1, 4) { Some(vec![0.0, 0.25, 1.0]) } else { None };
    let (mut bucket_duration_ns, mut bucket_count) = (None, None);
    if v7 {
        if r.chance(1, 6) {
            // out of range: `Quantile::new` clamps to [0, 1]
            quantiles = Some(vec![-0.5, 0.5, 1.5]);
            out.count("cfg.quantiles_out_of_range");
        }
        if r.chance(1, 3) {
            // tiny summary windows: with the real clock every drained sample then meets the time-dependent branches
            // of `RollingSummary::add` (new bucket, expiry, and — blocks are drained newest first — a time stamp
            // older than the newest bucket); `_count`/`_sum` must not depend on any of that
            bucket_duration_ns = Some(*r.pick(&[1u64, 50, 1000, 1_000_000]));
            if r.chance(1, 2) {
                bucket_count = Some(*r.pick(&[1u32, 2, 3, 7]));
            }
            out.count("cfg.tiny_summary_window");
        }
    }
    let cfg = SessionCfg { unit_suffix: r.chance(1, 2), globals, buckets, overrides, quantiles, bucket_duration_ns, bucket_count };
    let qtexts: Vec<String> = match &cfg.quantiles {
        Some(q) => q.iter().map(|x| format!("{}", x.max(0.0).min(1.0))).collect(),
        None => ["0", "0.5", "0.9", "0.95", "0.99", "0.999", "1"].iter().map(|s| s.to_string()).collect(),
    };
    let (rec, handle) = build(&cfg);
    out.op(
        &format!(
            "prom new {} {} {} {} {}",
            cfg.unit_suffix as u8,
            pairs(&cfg.globals),
            match &cfg.buckets {
                Some(b) => ints(b),
                None => "~".into(),
            },
            list(cfg.overrides.iter().map(|(k, p, b)| format!(
                "{}/{}/{}",
                ["full", "prefix", "suffix"][*k as usize],
                hexs(p),
                ints(b)
            ))),
            list(qtexts.iter().map(|q| hexs(q)))
        ),
        "ok",
    );
    out.count(&format!(
        "cfg.unit_suffix={} globals={} buckets={} overrides={}",
        cfg.unit_suffix,
        cfg.globals.len(),
        cfg.buckets.is_some(),
        cfg.overrides.len()
    ));
    if shape.wide {
        let b = |n: usize| match n { 0 => "0", 1..=3 => "1-3", 4..=5 => "4-5", 6..=9 => "6-9", _ => "10+" };
        out.count(&format!("wide.overrides={}", b(cfg.overrides.len())));
        out.count(&format!("wide.global_calls={}", b(cfg.globals.len())));
        out.count(&format!(
            "wide.max_bounds={}",
            b(cfg.overrides.iter().map(|o| o.2.len()).chain(cfg.buckets.iter().map(|x| x.len())).max().unwrap_or(0))
        ));
    }

    // ---- series
    let mut series: Vec<Series> = vec![];
    let mut seen_ids: HashSet<String> = HashSet::new();
    for (raw, _) in &names {
        let kind = r.below(3) as u8;
        for _ in 0..r.range(1, shape.max_series) {
            let mut labels: Vec<(String, String)> = vec![];
            // C07, histograms: a second registry key that renders to the SAME series as the previous one (a label
            // name spelt differently with the same sanitised form, or simply the same key again): the exporter folds
            // both buckets into one distribution, `_count`/`_sum` are those of all samples of both keys
            let collide = v7 && kind == 2 && r.chance(1, 4) && series.last().map_or(false, |p: &Series| p.name == *raw);
            if collide {
                labels = series.last().unwrap().labels.clone();
                if let Some(l) = labels.iter_mut().find(|(k, _)| {
                    (k.contains('-') || k.starts_with('9'))
                        && !cfg.globals.iter().any(|(g, _)| own_sanitize(g, false) == own_sanitize(k, false))
                }) {
                    l.0 = own_sanitize(&l.0, false);
                }
                out.count("series.colliding_histogram_keys");
            }
            for _ in 0..(if collide { 0 } else { r.below(shape.max_own_labels + 1) }) {
                // sometimes override a global label by using its exact name
                let k = if !cfg.globals.is_empty() && r.chance(1, 4) {
                    cfg.globals[r.below(cfg.globals.len())].0.clone()
                } else {
                    pick_lname(r, fl)
                };
                let sk = own_sanitize(&k, false);
                let dup_own = labels.iter().any(|(o, _)| own_sanitize(o, false) == sk);
                let dup_glob = cfg.globals.iter().any(|(g, _)| *g != k && own_sanitize(g, false) == sk);
                if sk != "le" && sk != "quantile" && !dup_own && !dup_glob {
                    labels.push((k, pick_lval(r, fl)));
                }
            }
            let key = Key::from_parts(
                raw.clone(),
                labels.iter().map(|(k, v)| Label::new(k.clone(), v.clone())).collect::<Vec<_>>(),
            );
            let gl: indexmap::IndexMap<String, String> = cfg.globals.iter().cloned().collect();
            let (pn, pl) = metrics_exporter_prometheus::formatting::key_to_parts(&key, Some(&gl));
            let mut sorted = pl.clone();
            sorted.sort();
            if seen_ids.insert(format!("{}{:?}", pn, sorted)) || collide {
                series.push(Series {
                    kind,
                    name: raw.clone(),
                    labels,
                    key,
                    c_val: 0,
                    g_val: 0.0,
                    g_wild: false,
                    h_count: 0,
                    h_sum: 0,
                    h_vals: vec![],
                });
            }
        }
    }
    if shape.wide {
        let b = |n: usize| match n { 0 => "0", 1..=3 => "1-3", 4..=5 => "4-5", 6..=9 => "6-9", _ => "10+" };
        let mut per: BTreeMap<&str, usize> = BTreeMap::new();
        for s in &series {
            *per.entry(s.name.as_str()).or_insert(0) += 1;
            out.count(&format!("wide.labels_per_series(own+global)={}", b(s.labels.len() + cfg.globals.len())));
        }
        for (_, n) in per {
            out.count(&format!("wide.series_per_family={}", b(n)));
        }
    }
    // ---- history
    let mut described: BTreeMap<String, (String, Option<Unit>)> = BTreeMap::new(); // sanitised ↦ first
    let nops = r.range(4, 40);
    let wild_gauge = [f64::NAN, f64::INFINITY, f64::NEG_INFINITY, -0.0, f64::MAX, f64::MIN_POSITIVE, 5e-324, 0.1, 1e21, 1e-7, 123456789.123456789];
    let mut renders = 0;
    for step in 0..=nops {
        let last = step == nops;
        let what = if last { 7 } else { r.weighted(&[3, 6, 5, 6, 1, 2, 1, 2]) };
        match what {
            0 => {
                // describe
                let (raw, san) = names[r.below(names.len())].clone();
                let unit = if r.chance(2, 3) { Some(*r.pick(&UNITS)) } else { None };
                let desc = match fl {
                    Flavour::Strings => crate::c08::hostile_string(r, false),
                    _ => r.pick_str(&["first", "second help", "", "x\\y"]).to_string(),
                };
                let kn = metrics::KeyName::from(raw.clone());
                match r.below(3) {
                    0 => rec.describe_counter(kn, unit, desc.clone().into()),
                    1 => rec.describe_gauge(kn, unit, desc.clone().into()),
                    _ => rec.describe_histogram(kn, unit, desc.clone().into()),
                }
                described.entry(san).or_insert((desc.clone(), unit));
                out.op(&format!("prom describe {} {} {}", hexs(&raw), unit_tok(unit), hexs(&desc)), "ok");
                out.count("op.describe");
            }
            1 | 2 | 3 => {
                let i = r.below(series.len());
                let s = &mut series[i];
                match s.kind {
                    0 => {
                        let c = rec.register_counter(&s.key, &META);
                        if r.chance(4, 5) {
                            let n = *r.pick(&[0u64, 1, 2, 7, 1000, u64::MAX, u64::MAX - 1, 1 << 63]);
                            c.increment(n);
                            s.c_val = s.c_val.wrapping_add(n);
                            out.op(&format!("prom cinc {} {}", key_tok(s), n), "ok");
                            out.count("op.cinc");
                        } else {
                            let n = *r.pick(&[0u64, 5, 100, u64::MAX, 1 << 40]);
                            c.absolute(n);
                            s.c_val = s.c_val.max(n);
                            out.op(&format!("prom cabs {} {}", key_tok(s), n), "ok");
                            out.count("op.cabs");
                        }
                    }
                    1 => {
                        let g = rec.register_gauge(&s.key, &META);
                        if v7 && r.chance(1, 4) {
                            // C07: the whole argument domain of increment/decrement — negative arguments, arguments
                            // and current values that are not f32-representable, NaN/±inf/extreme on either side.
                            // Exact dyadic case → model `gadd`; otherwise the tally follows IEEE (`cur ± x`, the
                            // documented meaning) and the model is told the resulting bit pattern (`gset`), since
                            // IEEE rounding is outside the model.
                            let x = if r.chance(1, 3) {
                                *r.pick(&wild_gauge)
                            } else {
                                let m = ((1i64 << 25) + r.range(0, 1 << 30) as i64) | 1;
                                dy(if r.chance(1, 2) { m } else { -m })
                            };
                            let inc = r.chance(1, 2);
                            if inc {
                                g.increment(x);
                            } else {
                                g.decrement(x);
                            }
                            let before = s.g_val;
                            s.g_val = if inc { before + x } else { before - x };
                            if s.g_val.is_nan() {
                                s.g_val = f64::NAN; // the text form has one NaN; its sign/payload is not observable
                            }
                            let exact = !s.g_wild && val_tok(x).starts_with('d') && val_tok(s.g_val).starts_with('d');
                            if exact {
                                let m = (x * 1024.0) as i64;
                                out.op(&format!("prom gadd {} {}", key_tok(s), if inc { m } else { -m }), "ok");
                                out.count("op.gadd.signed_big");
                            } else {
                                out.op(&format!("prom gset {} {}", key_tok(s), val_tok(s.g_val)), "ok");
                                s.g_wild = !(val_tok(s.g_val).starts_with('d') && s.g_val.abs() < 1e12);
                                out.count("op.gadd.ieee(model:gset)");
                            }
                        } else if r.chance(1, 6) {
                            let v = *r.pick(&wild_gauge);
                            g.set(v);
                            s.g_val = v;
                            s.g_wild = true;
                            out.op(&format!("prom gset {} {}", key_tok(s), val_tok(v)), "ok");
                            out.count("op.gset.wild");
                        } else if s.g_wild || r.chance(1, 2) {
                            let n = r.range(0, 1 << 21) as i64 - (1 << 20);
                            g.set(dy(n));
                            s.g_val = dy(n);
                            s.g_wild = false;
                            out.op(&format!("prom gset {} d{}", key_tok(s), n), "ok");
                            out.count("op.gset");
                        } else {
                            let n = r.range(0, 1 << 21) as i64 - (1 << 20);
                            if n >= 0 {
                                g.increment(dy(n));
                            } else {
                                g.decrement(dy(-n));
                            }
                            s.g_val += dy(n);
                            out.op(&format!("prom gadd {} {}", key_tok(s), n), "ok");
                            out.count("op.gadd");
                        }
                    }
                    _ => {
                        let h = rec.register_histogram(&s.key, &META);
                        let reps = if r.chance(1, 10) { r.range(60, 140) } else { r.range(1, 3) };
                        for _ in 0..reps {
                            let n = if v7 && r.chance(1, 5) {
                                // C07: samples that are NOT f32-representable (odd numerator of more than 24 bits) —
                                // a detour through f32, or a fixed-precision rendering of `_sum`, would change them
                                // (all partial sums of a session stay below 2^53/1024, so they are exact)
                                let m = ((1i64 << 25) + r.range(0, 1 << 30) as i64) | 1;
                                out.count("op.hrec.not_f32_representable");
                                if r.chance(1, 2) {
                                    m
                                } else {
                                    -m
                                }
                            } else if r.chance(1, 3) {
                                // values equal to bounds are the interesting ones
                                match (&cfg.buckets, cfg.overrides.first()) {
                                    (Some(b), _) => *r.pick(b),
                                    (None, Some((_, _, b))) => *r.pick(b),
                                    _ => 0,
                                }
                            } else {
                                r.range(0, 8192) as i64 - 4096
                            };
                            if v7 && r.chance(1, 6) {
                                // `Histogram::record_many` on the exporter's own handle: `c` samples of the same value
                                let c = *r.pick(&[0usize, 1, 2, 3, 63, 64, 65, 130]);
                                h.record_many(dy(n), c);
                                s.h_count += c as u64;
                                s.h_sum += n * c as i64;
                                s.h_vals.extend(std::iter::repeat(n).take(c));
                                out.op(&format!("prom hrecmany {} {} {}", key_tok(s), n, c), "ok");
                                out.count("op.hrecmany");
                                continue;
                            }
                            h.record(dy(n));
                            s.h_count += 1;
                            s.h_sum += n;
                            s.h_vals.push(n);
                            out.op(&format!("prom hrec {} {}", key_tok(s), n), "ok");
                        }
                        out.count("op.hrec");
                    }
                }
            }
            4 | 5 => {
                handle.run_upkeep();
                out.op("prom upkeep", "ok");
                out.count("op.upkeep");
            }
            _ => {
                let text = handle.render();
                renders += 1;
                out.op("prom render", &canonical(&text));
                out.count("op.render");
                oracle_render(out, &cfg, &series, &described, &text);
                if fl == Flavour::Strings {
                    crate::c08::number_text_oracle(out, &cfg, &qtexts, &text);
                }
                if r.chance(1, 3) || last {
                    // rendering twice with no update in between yields the same set of lines
                    let text2 = handle.render();
                    out.op("prom render", &canonical(&text2));
                    if canonical(&text) != canonical(&text2) {
                        out.oracle_fail("render twice without update differs", &format!("{:?}\n----\n{:?}", text, text2));
                    }
                }
            }
        }
    }
    if series.iter().any(|s| s.kind == 2) && renders > 1 {
        out.nontrivial();
    }
    if fl == Flavour::Strings {
        out.nontrivial();
    }
}

/// implementation-side oracle: the text is well-formed and reports exactly what was recorded
fn oracle_render(
    out: &mut Out,
    cfg: &SessionCfg,
    series: &[Series],
    described: &BTreeMap<String, (String, Option<Unit>)>,
    text: &str,
) {
    let fams = match expo::check_exposition(text) {
        Ok(f) => f,
        Err(e) => {
            out.oracle_fail("render(): not well-formed exposition text", &format!("{} :: {:?}", e, text));
            return;
        }
    };
    let gl: indexmap::IndexMap<String, String> = cfg.globals.iter().cloned().collect();
    for s in series {
        let (pn, pl) = metrics_exporter_prometheus::formatting::key_to_parts(&s.key, Some(&gl));
        let unit = described.get(&pn).and_then(|d| d.1).filter(|_| cfg.unit_suffix);
        let fam_name = format!("{}{}", pn, unit_suffix(unit));
        // was this series touched at all?  untouched series are not registered
        let touched = match s.kind {
            0 | 1 => true,
            _ => true,
        };
        let _ = touched;
        let fam = fams.iter().find(|f| f.name == fam_name);
        let registered = match s.kind {
            0 => s.c_val != 0 || fam.is_some(),
            _ => true,
        };
        let _ = registered;
        let Some(fam) = fam else { continue }; // never updated → never registered → absent (checked by the model diff)
        let want_labels: Vec<String> = pl.clone();
        let mine: Vec<&(String, Vec<(String, String)>, String)> = fam
            .samples
            .iter()
            .filter(|(_, ls, _)| {
                let own: Vec<String> = ls
                    .iter()
                    .filter(|(k, _)| k != "le" && k != "quantile")
                    .map(|(k, v)| format!("{}=\"{}\"", k, v))
                    .collect();
                own == want_labels
            })
            .collect();
        if mine.is_empty() {
            continue;
        }
        if let Some((d, _)) = described.get(&pn) {
            let want = metrics_exporter_prometheus::formatting::sanitize_description(d);
            if fam.help.as_deref() != Some(want.as_str()) {
                out.oracle_fail("HELP is not the first description given", &format!("{:?} vs {:?}", fam.help, want));
            }
        }
        match s.kind {
            0 => {
                if fam.ty != "counter" || mine.len() != 1 || mine[0].2 != s.c_val.to_string() {
                    out.oracle_fail(
                        "counter series does not show the total of its increments",
                        &format!("{} want {} got {:?}", fam_name, s.c_val, mine),
                    );
                }
            }
            1 => {
                let got = mine[0].2.parse::<f64>().unwrap();
                let same = got.to_bits() == s.g_val.to_bits() || (got.is_nan() && s.g_val.is_nan());
                if fam.ty != "gauge" || mine.len() != 1 || !same {
                    out.oracle_fail(
                        "gauge series does not parse back to its last value",
                        &format!("{} want {:?} got {:?}", fam_name, s.g_val, mine),
                    );
                }
            }
            _ => {
                // several registry keys may render to this one series (C07 generates such pairs): what the series must
                // show is the tally of all of them
                let mut agg = s.clone();
                for t in series {
                    if t.kind == 2 && !std::ptr::eq(t, s) {
                        let (tn, tl) = metrics_exporter_prometheus::formatting::key_to_parts(&t.key, Some(&gl));
                        if tn == pn && tl == pl {
                            agg.h_count += t.h_count;
                            agg.h_sum += t.h_sum;
                            agg.h_vals.extend(t.h_vals.iter().cloned());
                        }
                    }
                }
                let s = &agg;
                let cnt = mine.iter().find(|(n, _, _)| *n == format!("{}_count", fam_name)).map(|x| x.2.clone());
                let sum = mine.iter().find(|(n, _, _)| *n == format!("{}_sum", fam_name)).map(|x| x.2.clone());
                if cnt != Some(s.h_count.to_string()) {
                    out.oracle_fail(
                        "histogram _count is not the number of samples recorded",
                        &format!("{} want {} got {:?}", fam_name, s.h_count, cnt),
                    );
                }
                let sum_ok = sum.as_ref().and_then(|x| x.parse::<f64>().ok()).map(|x| x == dy(s.h_sum)).unwrap_or(false);
                if !sum_ok {
                    out.oracle_fail(
                        "histogram _sum is not the sum of samples recorded",
                        &format!("{} want {} got {:?}", fam_name, dy(s.h_sum), sum),
                    );
                }
                if fam.ty == "histogram" {
                    // bucket semantics (C15): count for bound b = #samples <= b; monotone; +Inf = count
                    let mut prev = 0u64;
                    for (n, ls, v) in mine.iter().filter(|(n, _, _)| *n == format!("{}_bucket", fam_name)) {
                        let _ = n;
                        let le = &ls.iter().find(|(k, _)| k == "le").unwrap().1;
                        let c: u64 = v.parse().unwrap_or(u64::MAX);
                        let want = if le == "+Inf" {
                            s.h_count
                        } else {
                            let b: f64 = le.parse().unwrap();
                            s.h_vals.iter().filter(|x| dy(**x) <= b).count() as u64
                        };
                        if c != want || c < prev {
                            out.oracle_fail(
                                "histogram bucket count is not the number of samples <= bound",
                                &format!("{} le={} want {} got {}", fam_name, le, want, c),
                            );
                        }
                        prev = c;
                    }
                } else {
                    for (_, ls, v) in mine.iter().filter(|(_, ls, _)| ls.iter().any(|(k, _)| k == "quantile")) {
                        let _ = ls;
                        let q: f64 = v.parse().unwrap_or(f64::NAN);
                        let (mn, mx) = s.h_vals.iter().fold((f64::INFINITY, f64::NEG_INFINITY), |(a, b), x| {
                            (a.min(dy(*x)), b.max(dy(*x)))
                        });
                        let ok = if s.h_vals.is_empty() {
                            q == 0.0
                        } else if cfg.bucket_duration_ns.is_some() && q == 0.0 {
                            // configured tiny window: every sample may have aged out of the summary already
                            true
                        } else {
                            // all samples are within the window here (sessions last milliseconds);
                            // DDSketch relative accuracy 1e-4
                            let slack = 1e-3 * mn.abs().max(mx.abs()) + 1e-9;
                            q >= mn - slack && q <= mx + slack
                        };
                        if !ok {
                            out.oracle_fail(
                                "summary quantile outside [min,max] of the window",
                                &format!("{} q={} min={} max={}", fam_name, q, mn, mx),
                            );
                        }
                    }
                }
            }
        }
    }
}
