//! C06 — the registry keeps exactly one storage per metric kind and key.
//!
//! Stream A (sequential): random op sequences on real `Registry`s
//!   * `Registry<Key, CountingStorage>` with pools of equal-but-differently-built keys (from_parts,
//!     from_static_parts, from_static_labels, with_extra_labels, clones, label permutations), optionally
//!     filtered so that all classes fall into one shard;
//!   * `Registry::atomic()` (storages identified by `Arc` address in order of first sight);
//!   * `Registry<DefaultHashable<CKey>, CountingStorage>` where `CKey`'s `Hash` is degenerate, so that
//!     unequal keys with the SAME 64-bit hash meet inside hashbrown.
//! Every op goes to the Lean model (`registry …`) with the key's class (the harness' own canonicalisation:
//! name + sorted labels) and its real `Hashable::hashable()` value; the shard count is read off the real
//! registry (`shard_mask` in its `Debug` output).
//!
//! Stream B (concurrent): creators / getters / deleters on 2-3 real threads under the deterministic
//! scheduler (`reg.goc.read`, `reg.goc.write`, `reg.get`, `reg.delete` yield points); every executed schedule
//! is replayed on the Lean step machine (`registry run …`).
//!
//! Oracles (independent of the model): a reference map class -> storage address kept by the harness from the
//! property text alone; in stream B it is replayed in the order of the calls' last grants.

use crate::sched;
use crate::util::*;
use metrics::{CounterFn, GaugeFn, HistogramFn, Key, KeyHasher, Label};
use metrics_util::registry::{AtomicStorage, Registry, Storage};
use metrics_util::storage::AtomicBucket;
use metrics_util::{DefaultHashable, Hashable};
use std::any::Any;
use std::collections::{BTreeMap, BTreeSet};
use std::hash::{BuildHasher, BuildHasherDefault, Hash, Hasher};
use std::sync::atomic::{AtomicU64, AtomicUsize, Ordering};
use std::sync::{Arc, Mutex};

// ---------------------------------------------------------------------------------------------
// counting storage

#[derive(Debug)]
pub struct Cell {
    id: usize,
    kind: u8,
    canon: String,
    val: AtomicU64,
}

#[derive(Clone, Debug)]
pub struct H(Arc<Cell>);

impl CounterFn for H {
    fn increment(&self, v: u64) {
        self.0.val.fetch_add(v, Ordering::SeqCst);
    }
    fn absolute(&self, v: u64) {
        self.0.val.fetch_max(v, Ordering::SeqCst);
    }
}
impl GaugeFn for H {
    fn increment(&self, _: f64) {}
    fn decrement(&self, _: f64) {}
    fn set(&self, _: f64) {}
}
impl HistogramFn for H {
    fn record(&self, _: f64) {}
}

/// every storage it creates gets the next id, the kind it was asked for and the class of the creating key
pub struct CountingStorage<K> {
    next: Arc<AtomicUsize>,
    classify: fn(&K) -> String,
}
impl<K> std::fmt::Debug for CountingStorage<K> {
    fn fmt(&self, f: &mut std::fmt::Formatter<'_>) -> std::fmt::Result {
        write!(f, "CountingStorage")
    }
}
impl<K> CountingStorage<K> {
    fn mk(&self, kind: u8, k: &K) -> H {
        let id = self.next.fetch_add(1, Ordering::SeqCst);
        H(Arc::new(Cell { id, kind, canon: (self.classify)(k), val: AtomicU64::new(0) }))
    }
}
impl<K> Storage<K> for CountingStorage<K> {
    type Counter = H;
    type Gauge = H;
    type Histogram = H;
    fn counter(&self, k: &K) -> H {
        self.mk(0, k)
    }
    fn gauge(&self, k: &K) -> H {
        self.mk(1, k)
    }
    fn histogram(&self, k: &K) -> H {
        self.mk(2, k)
    }
}

/// identity of a storage handle
pub trait Ident: Clone + 'static {
    fn addr(&self) -> usize;
    fn cell(&self) -> Option<&Cell> {
        None
    }
}
impl Ident for H {
    fn addr(&self) -> usize {
        Arc::as_ptr(&self.0) as usize
    }
    fn cell(&self) -> Option<&Cell> {
        Some(&self.0)
    }
}
impl Ident for Arc<metrics::atomics::AtomicU64> {
    fn addr(&self) -> usize {
        Arc::as_ptr(self) as usize
    }
}
impl Ident for Arc<AtomicBucket<f64>> {
    fn addr(&self) -> usize {
        Arc::as_ptr(self) as usize
    }
}

#[derive(Clone, Debug)]
struct Got {
    addr: usize,
    /// id used in the answer line: the counting storage's id, else the order of first sight
    id: usize,
    kind: Option<u8>,
    canon: Option<String>,
}

type Seen = Vec<(usize, Box<dyn Any>)>;

fn see<T: Ident>(seen: &mut Seen, h: &T) -> Got {
    let a = h.addr();
    let idx = match seen.iter().position(|(x, _)| *x == a) {
        Some(i) => i,
        None => {
            seen.push((a, Box::new(h.clone()))); // keeps the allocation alive: addresses are never reused
            seen.len() - 1
        }
    };
    match h.cell() {
        Some(c) => Got { addr: a, id: c.id, kind: Some(c.kind), canon: Some(c.canon.clone()) },
        None => Got { addr: a, id: idx, kind: None, canon: None },
    }
}

struct Sut<K, S: Storage<K>> {
    reg: Registry<K, S>,
    seen: Seen,
    mask: usize,
}

impl<K, S> Sut<K, S>
where
    K: Clone + Eq + Hashable + std::fmt::Debug,
    S: Storage<K> + std::fmt::Debug,
    S::Counter: Ident + std::fmt::Debug,
    S::Gauge: Ident + std::fmt::Debug,
    S::Histogram: Ident + std::fmt::Debug,
{
    fn new(reg: Registry<K, S>) -> Self {
        // the real shard mask, as the registry itself reports it
        let dbg = format!("{:?}", reg);
        let mask = dbg
            .rsplit("shard_mask: ")
            .next()
            .and_then(|s| s.split(|c: char| !c.is_ascii_digit()).next())
            .and_then(|s| s.parse::<usize>().ok())
            .expect("shard_mask in Debug output of Registry");
        Sut { reg, seen: vec![], mask }
    }
    fn goc(&mut self, kind: u8, k: &K) -> Got {
        match kind {
            0 => {
                let h = self.reg.get_or_create_counter(k, |c| c.clone());
                see(&mut self.seen, &h)
            }
            1 => {
                let h = self.reg.get_or_create_gauge(k, |c| c.clone());
                see(&mut self.seen, &h)
            }
            _ => {
                let h = self.reg.get_or_create_histogram(k, |c| c.clone());
                see(&mut self.seen, &h)
            }
        }
    }
    fn get(&mut self, kind: u8, k: &K) -> Option<Got> {
        match kind {
            0 => self.reg.get_counter(k).map(|h| see(&mut self.seen, &h)),
            1 => self.reg.get_gauge(k).map(|h| see(&mut self.seen, &h)),
            _ => self.reg.get_histogram(k).map(|h| see(&mut self.seen, &h)),
        }
    }
    fn del(&mut self, kind: u8, k: &K) -> bool {
        match kind {
            0 => self.reg.delete_counter(k),
            1 => self.reg.delete_gauge(k),
            _ => self.reg.delete_histogram(k),
        }
    }
    /// `get_or_create_*` whose `op` closure unwinds (caught here) after it has been handed the storage: on the create
    /// path the shard's WRITE guard is dropped during the unwind, which poisons that shard's `RwLock` for good
    /// (`resume_unwind`: a real unwind, `thread::panicking()` is true, but the panic hook prints nothing)
    fn goc_panic(&mut self, kind: u8, k: &K) -> Got {
        use std::panic::{catch_unwind, resume_unwind, AssertUnwindSafe};
        let Sut { reg, seen, .. } = self;
        let mut got: Option<Got> = None;
        let res = catch_unwind(AssertUnwindSafe(|| match kind {
            0 => reg.get_or_create_counter(k, |c| -> () {
                got = Some(see(seen, c));
                resume_unwind(Box::new(()))
            }),
            1 => reg.get_or_create_gauge(k, |c| -> () {
                got = Some(see(seen, c));
                resume_unwind(Box::new(()))
            }),
            _ => reg.get_or_create_histogram(k, |c| -> () {
                got = Some(see(seen, c));
                resume_unwind(Box::new(()))
            }),
        }));
        assert!(res.is_err(), "the op closure must have unwound");
        got.expect("op closure was called")
    }
    /// `retain_*` whose predicate unwinds at its FIRST call (nothing has been removed yet; the shard's write guard is
    /// dropped during the unwind: poisoned). Returns whether the predicate was called at all.
    fn retain_panic(&mut self, kind: u8) -> bool {
        use std::panic::{catch_unwind, resume_unwind, AssertUnwindSafe};
        let reg = &self.reg;
        let res = catch_unwind(AssertUnwindSafe(|| match kind {
            0 => reg.retain_counters(|_, _| -> bool { resume_unwind(Box::new(())) }),
            1 => reg.retain_gauges(|_, _| -> bool { resume_unwind(Box::new(())) }),
            _ => reg.retain_histograms(|_, _| -> bool { resume_unwind(Box::new(())) }),
        }));
        res.is_err()
    }
    /// returns what the predicate was called with, in call order
    fn retain(&mut self, kind: u8, keep: &dyn Fn(&K, usize) -> bool) -> Vec<(K, Got)> {
        let Sut { reg, seen, .. } = self;
        let mut calls = vec![];
        match kind {
            0 => reg.retain_counters(|k, h| {
                let g = see(seen, h);
                let r = keep(k, g.id);
                calls.push((k.clone(), g));
                r
            }),
            1 => reg.retain_gauges(|k, h| {
                let g = see(seen, h);
                let r = keep(k, g.id);
                calls.push((k.clone(), g));
                r
            }),
            _ => reg.retain_histograms(|k, h| {
                let g = see(seen, h);
                let r = keep(k, g.id);
                calls.push((k.clone(), g));
                r
            }),
        }
        calls
    }
    fn visit(&mut self, kind: u8) -> Vec<(K, Got)> {
        let Sut { reg, seen, .. } = self;
        let mut v = vec![];
        match kind {
            0 => reg.visit_counters(|k, h| v.push((k.clone(), see(seen, h)))),
            1 => reg.visit_gauges(|k, h| v.push((k.clone(), see(seen, h)))),
            _ => reg.visit_histograms(|k, h| v.push((k.clone(), see(seen, h)))),
        }
        v
    }
    fn handles(&mut self, kind: u8) -> Vec<(K, Got)> {
        let Sut { reg, seen, .. } = self;
        match kind {
            0 => reg.get_counter_handles().into_iter().map(|(k, h)| (k, see(seen, &h))).collect(),
            1 => reg.get_gauge_handles().into_iter().map(|(k, h)| (k, see(seen, &h))).collect(),
            _ => reg.get_histogram_handles().into_iter().map(|(k, h)| (k, see(seen, &h))).collect(),
        }
    }
}

// ---------------------------------------------------------------------------------------------
// reference map: what the property text says, on storage addresses

#[derive(Default)]
struct RefMap {
    live: BTreeMap<(u8, usize), usize>,
    ever: BTreeSet<usize>,
    created: usize,
    /// set for the two-hash key stream: the id of the (proposed) known finding every failure of this reference map is a
    /// consequence of. Reported as an oracle failure `"<id>: …"` when known_findings.json lists the id (the check
    /// recognises it only in cases where the Lean model reproduces every answer), otherwise counted.
    finding: Option<&'static str>,
}

impl RefMap {
    fn fail(&self, out: &mut Out, what: &str, detail: &str) {
        match self.finding {
            None => out.oracle_fail(what, detail),
            Some(id) => {
                // the two-hash defect is REPAIRED in the repository (fix: new entries are filed under `K::hashable()`):
                // a recurrence is a violation like any other, unless known_findings.json lists it again
                out.count(&format!("{}.consequence", id));
                if known_has(id) {
                    out.oracle_fail(&format!("{}: {}", id, what), detail);
                } else {
                    out.oracle_fail(what, &format!("{} [third-party key type whose Hashable::Hasher is not the registry's]", detail));
                }
            }
        }
    }
    fn goc(&mut self, out: &mut Out, kind: u8, cls: usize, g: &Got, key_canon: &str) -> bool {
        if let Some(k) = g.kind {
            if k != kind {
                self.fail(out, "get_or_create returned a storage of another metric kind", &format!("asked {} got {}", kind, k));
            }
        }
        if let Some(c) = &g.canon {
            if c != key_canon {
                self.fail(out, 
                    "get_or_create returned a storage that was created for a different (unequal) key",
                    &format!("key {:?} storage made for {:?}", key_canon, c),
                );
            }
        }
        match self.live.get(&(kind, cls)) {
            Some(a) => {
                if *a != g.addr {
                    self.fail(out, 
                        "get_or_create of an equal key (no delete in between) returned a different storage",
                        &format!("kind {} class {} storage id {}", kind, cls, g.id),
                    );
                }
                true
            }
            None => {
                if !self.ever.insert(g.addr) {
                    self.fail(out, 
                        "get_or_create of an absent key returned a storage that another kind/key/lifetime already had",
                        &format!("kind {} class {} storage id {}", kind, cls, g.id),
                    );
                }
                self.live.insert((kind, cls), g.addr);
                self.created += 1;
                false
            }
        }
    }
    fn get(&mut self, out: &mut Out, kind: u8, cls: usize, g: &Option<Got>) {
        match (self.live.get(&(kind, cls)), g) {
            (None, None) => {}
            (Some(a), Some(g)) if *a == g.addr => {}
            (want, got) => self.fail(out, 
                "get_* did not return the live storage of the key",
                &format!("kind {} class {} live {:?} got {:?}", kind, cls, want.is_some(), got.as_ref().map(|g| g.id)),
            ),
        }
    }
    fn del(&mut self, out: &mut Out, kind: u8, cls: usize, res: bool) {
        let was = self.live.remove(&(kind, cls)).is_some();
        if was != res {
            self.fail(out, "delete_* reported existence untruthfully", &format!("kind {} class {} existed {} reported {}", kind, cls, was, res));
        }
    }
    fn listing(&self, kind: u8) -> Vec<(usize, usize)> {
        self.live.iter().filter(|((k, _), _)| *k == kind).map(|((_, c), a)| (*c, *a)).collect()
    }
    fn check_listing(&self, out: &mut Out, what: &str, kind: u8, got: &[(usize, usize)]) {
        let mut g = got.to_vec();
        g.sort();
        if g != self.listing(kind) {
            self.fail(out, 
                &format!("{} at quiescence does not report exactly the live keys, each once", what),
                &format!("kind {} reported {} entries, live {}", kind, g.len(), self.listing(kind).len()),
            );
        }
    }
}

// ---------------------------------------------------------------------------------------------
// keys

const NAMES: &[&str] = &["a", "b", "lat", "reqs"];
const LNAMES: &[&str] = &["x", "y", "z", "w", "v", "u", "t", "s", "r", "q", "p"];
const LVALS: &[&str] = &["0", "1", "2"];

fn canon_key(k: &Key) -> String {
    let mut ls: Vec<(String, String)> = k.labels().map(|l| (l.key().to_string(), l.value().to_string())).collect();
    ls.sort();
    let mut s = k.name().to_string();
    for (a, b) in ls {
        s.push('\u{1}');
        s.push_str(&a);
        s.push('\u{2}');
        s.push_str(&b);
    }
    s
}

type KSpec = (&'static str, Vec<(&'static str, &'static str)>);

fn gen_spec(r: &mut Rng) -> KSpec {
    let name = r.pick_str(NAMES);
    let n = match r.weighted(&[3, 3, 4, 5, 2]) {
        0 => 0,
        1 => 1,
        2 => 2,
        3 => r.range(3, 7),
        _ => r.range(8, 10),
    };
    // distinct label names (the property's keys; repeated label names are C03's subject)
    let mut names: Vec<&'static str> = LNAMES.to_vec();
    for i in (1..names.len()).rev() {
        names.swap(i, r.below(i + 1));
    }
    let mut labels: Vec<(&'static str, &'static str)> = names[..n].iter().map(|l| (*l, r.pick_str(LVALS))).collect();
    // two labels with the SAME name and different values: `Key` equality treats two labels as an unordered pair,
    // so both orders are one key and must hit one storage (this needs the hash to agree with equality)
    if n == 2 && r.chance(1, 3) {
        labels[1].0 = labels[0].0;
        if labels[1].1 == labels[0].1 {
            labels[1].1 = if labels[0].1 == "zz-other" { "zz-another" } else { "zz-other" };
        }
    }
    (name, labels)
}

fn shuffled<T: Clone>(r: &mut Rng, v: &[T]) -> Vec<T> {
    let mut v = v.to_vec();
    for i in (1..v.len()).rev() {
        v.swap(i, r.below(i + 1));
    }
    v
}

fn mk_labels(r: &mut Rng, ls: &[(&'static str, &'static str)]) -> Vec<Label> {
    ls.iter()
        .map(|(k, v)| if r.chance(1, 2) { Label::new(k.to_string(), v.to_string()) } else { Label::from_static_parts(k, v) })
        .collect()
}

/// one more key of the class `spec`, built by method `m`
fn build_key(r: &mut Rng, out: &mut Out, spec: &KSpec, earlier: &[Key]) -> Key {
    let (name, ls) = spec;
    let m = r.below(7);
    match m {
        0 => {
            out.count("key.from_parts");
            Key::from_parts(name.to_string(), mk_labels(r, ls))
        }
        1 => {
            out.count("key.from_parts.permuted");
            let p = shuffled(r, ls);
            Key::from_parts(*name, mk_labels(r, &p))
        }
        2 => {
            out.count("key.from_static_parts.permuted");
            let p = shuffled(r, ls);
            let l: &'static [Label] = Box::leak(mk_labels(r, &p).into_boxed_slice());
            Key::from_static_parts(name, l)
        }
        3 => {
            out.count("key.with_extra_labels");
            let p = shuffled(r, ls);
            let j = r.below(p.len() + 1);
            let base = Key::from_parts(name.to_string(), mk_labels(r, &p[..j]));
            base.with_extra_labels(mk_labels(r, &p[j..]))
        }
        4 => {
            out.count("key.from_static_labels");
            let p = shuffled(r, ls);
            let l: &'static [Label] = Box::leak(mk_labels(r, &p).into_boxed_slice());
            Key::from_static_labels(name.to_string(), l)
        }
        5 if !earlier.is_empty() => {
            out.count("key.clone");
            let k = r.pick(earlier);
            if r.chance(1, 2) {
                let _ = k.get_hash();
            }
            k.clone()
        }
        _ => {
            if ls.is_empty() {
                out.count("key.from_name");
                if r.chance(1, 2) {
                    Key::from_name(name.to_string())
                } else {
                    Key::from_static_name(name)
                }
            } else {
                out.count("key.from_parts");
                Key::from_parts(*name, mk_labels(r, ls))
            }
        }
    }
}

/// pool of (class, key) with several differently built keys per class; classes by the harness' own
/// canonicalisation
fn key_pool(r: &mut Rng, out: &mut Out, nspecs: usize, collide_mask: Option<usize>) -> Vec<(usize, Key)> {
    let mut specs: Vec<KSpec> = vec![];
    if let Some(mask) = collide_mask {
        // keys filtered to fall into one shard
        let cands: Vec<KSpec> = (0..48).map(|_| gen_spec(r)).collect();
        let mut by_shard: BTreeMap<usize, Vec<KSpec>> = BTreeMap::new();
        for c in cands {
            let k = Key::from_parts(c.0, c.1.iter().map(|(a, b)| Label::new(*a, *b)).collect::<Vec<_>>());
            by_shard.entry(k.get_hash() as usize & mask).or_default().push(c);
        }
        let best = by_shard.into_iter().max_by_key(|(_, v)| v.len()).unwrap().1;
        specs.extend(best.into_iter().take(nspecs));
        out.count("pool.same_shard");
    } else {
        for _ in 0..nspecs {
            specs.push(gen_spec(r));
        }
    }
    let mut canons: Vec<String> = vec![];
    let mut pool: Vec<(usize, Key)> = vec![];
    for spec in &specs {
        let nvar = r.range(2, 4);
        let mut mine: Vec<Key> = vec![];
        for _ in 0..nvar {
            let k = build_key(r, out, spec, &mine);
            let c = canon_key(&k);
            let cls = match canons.iter().position(|x| *x == c) {
                Some(i) => i,
                None => {
                    canons.push(c);
                    canons.len() - 1
                }
            };
            mine.push(k.clone());
            pool.push((cls, k));
        }
    }
    pool
}

/// a key type whose `Hash` is degenerate: unequal keys share their full 64-bit hash
#[derive(Clone, Debug)]
#[allow(dead_code)]
pub struct CKey {
    cls: u32,
    var: u32,
    h: u64,
}
impl PartialEq for CKey {
    fn eq(&self, o: &Self) -> bool {
        self.cls == o.cls
    }
}
impl Eq for CKey {}
impl Hash for CKey {
    fn hash<Hh: Hasher>(&self, s: &mut Hh) {
        s.write_u64(self.h);
    }
}

/// is the finding id listed in known_findings.json? (same convention as harness/src/c12.rs: an oracle failure for a
/// finding that is not listed there would be a new violation; the reproduction is always counted in the distribution)
fn known_has(id: &str) -> bool {
    let p = concat!(env!("CARGO_MANIFEST_DIR"), "/../known_findings.json");
    std::fs::read_to_string(p).map(|s| s.contains(&format!("\"{}\"", id))).unwrap_or(false)
}

/// the hash the registry's maps file a NEW entry under when the insertion re-hashes the key itself: the shard maps
/// are `HashMap<K, V, BuildHasherDefault<RegistryHasher>>` with `RegistryHasher = KeyHasher` (registry/mod.rs:25-26)
fn map_hash<K: Hash>(k: &K) -> u64 {
    BuildHasherDefault::<KeyHasher>::default().hash_one(k)
}

/// A `Hasher` that is not `KeyHasher` (what `Hashable::Hasher` explicitly invites, common.rs:13-15): `KeyHasher`'s
/// value with the top bit flipped. hashbrown's control byte is the top 7 bits of the hash, so an entry filed under
/// one of the two values can NEVER be found by a lookup with the other: which of the two hashes the registry files an
/// entry under is observable deterministically (no accidental tag match).
#[derive(Default)]
pub struct FlipHasher(KeyHasher);
impl Hasher for FlipHasher {
    fn write(&mut self, b: &[u8]) {
        self.0.write(b)
    }
    fn finish(&self) -> u64 {
        self.0.finish() ^ (1u64 << 63)
    }
}

/// a third-party key: `Hash + Eq + Clone`, `Hashable` through the trait's DEFAULT `hashable()` with its own hasher
#[derive(Clone, Debug)]
#[allow(dead_code)]
pub struct TKey {
    cls: u32,
    var: u32,
    h: u64,
}
impl PartialEq for TKey {
    fn eq(&self, o: &Self) -> bool {
        self.cls == o.cls
    }
}
impl Eq for TKey {}
impl Hash for TKey {
    fn hash<Hh: Hasher>(&self, s: &mut Hh) {
        s.write_u64(self.h);
    }
}
impl Hashable for TKey {
    type Hasher = FlipHasher;
}

/// the innocent version of the same: a derived-`Hash` string key with the standard library's SipHash
#[derive(Clone, Debug, PartialEq, Eq, Hash)]
pub struct SipKey(pub String);
impl Hashable for SipKey {
    type Hasher = std::collections::hash_map::DefaultHasher;
}

// ---------------------------------------------------------------------------------------------
// stream A

fn pairs_tok(v: &mut Vec<(usize, usize)>) -> String {
    v.sort();
    list(v.iter().map(|(c, i)| format!("{}:{}", c, i)))
}

fn kind_tok(k: u8) -> &'static str {
    ["c", "g", "h"][k as usize]
}

fn seq_case<K, S>(
    out: &mut Out,
    r: &mut Rng,
    sut: &mut Sut<K, S>,
    pool: &[(usize, K)],
    cls_of: &dyn Fn(&K) -> usize,
    canon_of: &dyn Fn(&K) -> String,
    counting: Option<&dyn Fn(&Sut<K, S>) -> usize>,
    nops: usize,
    finding: Option<&'static str>,
) where
    K: Clone + Eq + Hashable + std::fmt::Debug,
    S: Storage<K> + std::fmt::Debug,
    S::Counter: Ident + std::fmt::Debug,
    S::Gauge: Ident + std::fmt::Debug,
    S::Histogram: Ident + std::fmt::Debug,
{
    let mut rf = RefMap { finding, ..RefMap::default() };
    out.op(&format!("registry new {}", sut.mask + 1), "ok");
    out.count(&format!("shards={}", sut.mask + 1));
    let (mut hits, mut dels, mut lists) = (0, 0, 0);
    // kinds: mostly one or two, so that the same key meets itself in another kind
    let kinds: Vec<u8> = if r.chance(1, 3) { vec![0, 1, 2] } else { vec![r.below(3) as u8, r.below(3) as u8] };
    for _ in 0..nops {
        let kind = *r.pick(&kinds);
        let kt = kind_tok(kind);
        let (cls, key) = r.pick(pool).clone();
        // class, lookup hash (`Hashable::hashable`), and the hash the shard map itself computes for this key
        let ktok = format!("{}:{}:{}", cls, key.hashable(), map_hash(&key));
        match r.weighted(&[36, 10, 14, 6, 2, 10, 10, 5, 4, 2]) {
            0 => {
                let g = sut.goc(kind, &key);
                out.op(&format!("registry goc {} {}", kt, ktok), &g.id.to_string());
                if rf.goc(out, kind, cls, &g, &canon_of(&key)) {
                    hits += 1;
                    out.count("goc.hit");
                } else {
                    out.count("goc.create");
                }
            }
            1 => {
                let g = sut.get(kind, &key);
                out.op(&format!("registry get {} {}", kt, ktok), &g.as_ref().map_or("~".to_string(), |g| g.id.to_string()));
                rf.get(out, kind, cls, &g);
                out.count("get");
            }
            2 => {
                let b = sut.del(kind, &key);
                out.op(&format!("registry del {} {}", kt, ktok), &b.to_string());
                rf.del(out, kind, cls, b);
                if b {
                    dels += 1;
                }
                out.count(if b { "delete.true" } else { "delete.false" });
            }
            3 => {
                // predicate: class in a random subset, or storage id in a random subset
                let ncls = pool.iter().map(|(c, _)| *c).max().unwrap_or(0) + 1;
                let keep_cls: Vec<usize> = (0..ncls).filter(|_| r.chance(1, 2)).collect();
                let keep_ids: Vec<usize> = (0..sut.seen.len()).filter(|_| r.chance(1, 6)).collect();
                let calls = sut.retain(kind, &|k: &K, id: usize| keep_cls.contains(&cls_of(k)) || keep_ids.contains(&id));
                let mut seen: Vec<(usize, usize)> = calls.iter().map(|(k, g)| (cls_of(k), g.id)).collect();
                out.op(
                    &format!(
                        "registry retain {} {} {}",
                        kt,
                        list(keep_cls.iter().map(|c| c.to_string())),
                        list(keep_ids.iter().map(|c| c.to_string()))
                    ),
                    &pairs_tok(&mut seen),
                );
                let seen_addr: Vec<(usize, usize)> = calls.iter().map(|(k, g)| (cls_of(k), g.addr)).collect();
                rf.check_listing(out, "the retain predicate's view", kind, &seen_addr);
                for (k, g) in &calls {
                    let c = cls_of(k);
                    if !(keep_cls.contains(&c) || keep_ids.contains(&g.id)) {
                        rf.live.remove(&(kind, c));
                    }
                }
                // exactness is observed by the following ops; check it right away as well
                let after: Vec<(usize, usize)> = sut.visit(kind).iter().map(|(k, g)| (cls_of(k), g.addr)).collect();
                rf.check_listing(out, "visit after retain (retain must remove exactly the rejected entries)", kind, &after);
                out.count("retain");
            }
            4 => {
                sut.reg.clear();
                out.op("registry clear", "ok");
                rf.live.clear();
                for kd in 0..3u8 {
                    if !sut.visit(kd).is_empty() {
                        rf.fail(out, "clear left entries behind", &format!("kind {}", kd));
                    }
                }
                out.count("clear");
            }
            5 => {
                let v = sut.visit(kind);
                // canonical form: maximal runs of equal shard index (real hash & real mask), each sorted
                let mut runs: Vec<(usize, Vec<(usize, usize)>)> = vec![];
                for (k, g) in &v {
                    let sh = k.hashable() as usize & sut.mask;
                    match runs.last_mut() {
                        Some((s, items)) if *s == sh => items.push((cls_of(k), g.id)),
                        _ => runs.push((sh, vec![(cls_of(k), g.id)])),
                    }
                }
                let ans = if runs.is_empty() {
                    ".".to_string()
                } else {
                    runs.iter_mut().map(|(_, it)| pairs_tok(it)).collect::<Vec<_>>().join(";")
                };
                out.op(&format!("registry visit {}", kt), &ans);
                let got: Vec<(usize, usize)> = v.iter().map(|(k, g)| (cls_of(k), g.addr)).collect();
                rf.check_listing(out, "visit_*", kind, &got);
                lists += 1;
                out.count("visit");
            }
            6 => {
                let v = sut.handles(kind);
                let mut ans: Vec<(usize, usize)> = v.iter().map(|(k, g)| (cls_of(k), g.id)).collect();
                if finding.is_some() {
                    // two-hash keys: when the registry holds several entries for one key, WHICH of their storages the
                    // snapshot map keeps is the last one in hashbrown's iteration order (not modelled): compare the
                    // key set with the model, and check here that every value is a storage registered under that key
                    let mut cl: Vec<usize> = ans.iter().map(|(c, _)| *c).collect();
                    cl.sort();
                    out.op(&format!("registry handlescls {}", kt), &list(cl.iter().map(|c| c.to_string())));
                    let vis: Vec<(usize, usize)> = sut.visit(kind).iter().map(|(k, g)| (cls_of(k), g.id)).collect();
                    for p in &ans {
                        if !vis.contains(p) {
                            out.oracle_fail("get_*_handles maps a key to a storage that is not registered under it", &format!("{:?} not in {:?}", p, vis));
                        }
                    }
                } else {
                    out.op(&format!("registry handles {}", kt), &pairs_tok(&mut ans));
                }
                let got: Vec<(usize, usize)> = v.iter().map(|(k, g)| (cls_of(k), g.addr)).collect();
                rf.check_listing(out, "get_*_handles", kind, &got);
                lists += 1;
                out.count("handles");
            }
            7 => {
                if let Some(f) = counting {
                    let n = f(sut);
                    out.op("registry created", &n.to_string());
                    if n != rf.created {
                        rf.fail(
                            out,
                            "number of storages created differs from the number of (kind, key) lifetimes started",
                            &format!("created {} lifetimes {}", n, rf.created),
                        );
                    }
                    out.count("created");
                }
            }
            8 => {
                // a recorder's `op` closure panics (caught by its caller) while the shard lock is held: after a create
                // the shard's RwLock is poisoned from here on. The entry was inserted BEFORE `op` ran, so for the
                // map this is an ordinary get-or-create; every later operation must still see, list, delete, retain
                // and clear the keys of that shard (all lock calls recover the guard from the PoisonError).
                let g = sut.goc_panic(kind, &key);
                out.op(&format!("registry goc {} {}", kt, ktok), &g.id.to_string());
                if rf.goc(out, kind, cls, &g, &canon_of(&key)) {
                    hits += 1;
                    out.count("goc.hit.op-panics(read lock, no poison)");
                } else {
                    out.count("goc.create.op-panics(shard poisoned)");
                }
            }
            _ => {
                // a retain predicate that panics at its first call: nothing removed, the shard it ran in is poisoned
                let called = sut.retain_panic(kind);
                out.op(&format!("registry retainpanic {}", kt), "ok");
                let after: Vec<(usize, usize)> = sut.visit(kind).iter().map(|(k, g)| (cls_of(k), g.addr)).collect();
                rf.check_listing(out, "visit after a retain whose predicate panicked at its first call", kind, &after);
                out.count(if called { "retain.predicate-panics(shard poisoned)" } else { "retain.predicate-panics(kind empty)" });
            }
        }
    }
    if hits > 0 && dels > 0 && lists > 0 {
        out.nontrivial();
    }
}

fn cls_table(pool: &[(usize, Key)]) -> Vec<(String, usize)> {
    let mut t: Vec<(String, usize)> = vec![];
    for (c, k) in pool {
        let cn = canon_key(k);
        if !t.iter().any(|(x, _)| *x == cn) {
            t.push((cn, *c));
        }
    }
    t
}

fn stream_a_case(out: &mut Out, r: &mut Rng, variant: usize) {
    let nops = r.range(8, 40);
    match variant {
        // real Keys, counting storage
        0 | 1 => {
            let ctr = Arc::new(AtomicUsize::new(0));
            let mut sut = Sut::new(Registry::new(CountingStorage::<Key> { next: ctr.clone(), classify: canon_key }));
            let nspecs = r.range(2, 5);
            let collide = if variant == 1 { Some(sut.mask) } else { None };
            let pool = key_pool(r, out, nspecs, collide);
            let tab = cls_table(&pool);
            let cls_of = move |k: &Key| {
                let c = canon_key(k);
                tab.iter().find(|(x, _)| *x == c).map(|(_, i)| *i).unwrap_or(usize::MAX)
            };
            let created = move |_: &Sut<Key, CountingStorage<Key>>| ctr.load(Ordering::SeqCst);
            seq_case(out, r, &mut sut, &pool, &cls_of, &canon_key, Some(&created), nops, None);
        }
        // Registry::atomic()
        2 => {
            let mut sut: Sut<Key, AtomicStorage> = Sut::new(Registry::atomic());
            let ns = r.range(2, 5);
            let pool = key_pool(r, out, ns, None);
            let tab = cls_table(&pool);
            let cls_of = move |k: &Key| {
                let c = canon_key(k);
                tab.iter().find(|(x, _)| *x == c).map(|(_, i)| *i).unwrap_or(usize::MAX)
            };
            out.count("registry.atomic");
            seq_case(out, r, &mut sut, &pool, &cls_of, &canon_key, None, nops, None);
        }
        // degenerate hash: different classes with the same full hash
        _ => {
            fn classify(k: &DefaultHashable<CKey>) -> String {
                k.0.cls.to_string()
            }
            let ctr = Arc::new(AtomicUsize::new(0));
            let mut sut = Sut::new(Registry::new(CountingStorage::<DefaultHashable<CKey>> { next: ctr.clone(), classify }));
            let ncls = r.range(2, 6);
            let m = r.range(1, 3) as u64; // number of distinct hash inputs
            let mut pool = vec![];
            for c in 0..ncls {
                for v in 0..r.range(1, 3) {
                    pool.push((c, DefaultHashable(CKey { cls: c as u32, var: v as u32, h: c as u64 % m })));
                }
            }
            out.count("registry.colliding_hashes");
            let cls_of = |k: &DefaultHashable<CKey>| k.0.cls as usize;
            let created = move |_: &Sut<DefaultHashable<CKey>, CountingStorage<DefaultHashable<CKey>>>| ctr.load(Ordering::SeqCst);
            seq_case(out, r, &mut sut, &pool, &cls_of, &classify, Some(&created), nops, None);
        }
    }
}

/// id of the finding proposed in reports (REPORT.md of round 4): see `two_hash_case`
const K_TWO_HASH: &str = "K-C06-two-hash";

/// Stream T: a third-party key type that is `Hashable` through the trait's DEFAULT `hashable()` with a hasher of its
/// own (`TKey` / `FlipHasher`). The registry looks entries up by `K::hashable()`; which hash a NEW entry is filed
/// under is decided by the insertion call (`or_insert_with` re-hashes the key with the map's `BuildHasher`). The Lean
/// model gets both real hash values with every key and follows the insertion call named by the source fact
/// `reg_goc_insert_calls`; the reference map states the property. Where the two hashes differ and the entry is filed
/// under the map's, every reference-map failure is a consequence of the finding `K-C06-two-hash`.
fn two_hash_case(out: &mut Out, r: &mut Rng) {
    fn classify(k: &TKey) -> String {
        k.cls.to_string()
    }
    let nops = r.range(6, 30);
    let ctr = Arc::new(AtomicUsize::new(0));
    let mut sut = Sut::new(Registry::new(CountingStorage::<TKey> { next: ctr.clone(), classify }));
    let ncls = r.range(1, 5);
    let m = r.range(1, 4) as u64;
    let mut pool = vec![];
    for c in 0..ncls {
        for v in 0..r.range(1, 3) {
            pool.push((c, TKey { cls: c as u32, var: v as u32, h: c as u64 % m }));
        }
    }
    for (_, k) in &pool {
        if k.hashable() == map_hash(k) {
            // FlipHasher differs from KeyHasher in the top bit by construction
            out.oracle_fail("harness: the two-hash key type has equal hashes", &format!("{:?}", k));
        }
    }
    out.count("registry.two_hash_key");
    let cls_of = |k: &TKey| k.cls as usize;
    let created = move |_: &Sut<TKey, CountingStorage<TKey>>| ctr.load(Ordering::SeqCst);
    seq_case(out, r, &mut sut, &pool, &cls_of, &classify, Some(&created), nops, Some(K_TWO_HASH));
}

/// Table growth and shrinkage (round 4, after seed C06-7): hashbrown re-hashes every entry when a table's capacity
/// changes, with whatever re-hasher the registry hands it. Keys of a third-party type (`SipKey`: derived `Hash`, std's
/// SipHash as `Hashable::Hasher`) and ordinary `Key`s are registered by the hundred, most of them deleted again, and
/// registered again — every survivor must still be found under its one storage, every delete must answer truthfully,
/// listings must show each live key once. Oracle-only (the model has no capacity).
fn churn_case(out: &mut Out, r: &mut Rng, thorough: bool) {
    fn classify(k: &SipKey) -> String {
        k.0.clone()
    }
    for round in 0..if thorough { 6 } else { 2 } {
        out.case(&format!("churn third-party keys round {}", round));
        let ctr = Arc::new(AtomicUsize::new(0));
        let reg = Registry::new(CountingStorage::<SipKey> { next: ctr.clone(), classify });
        let n = r.range(300, 1400);
        let key = |i: usize| SipKey(format!("churn_{}_{}", round, i));
        let mut live: BTreeMap<usize, usize> = BTreeMap::new();
        let mut fails: Vec<String> = vec![];
        for i in 0..n {
            let a = reg.get_or_create_counter(&key(i), |c| c.addr());
            live.insert(i, a);
        }
        // delete most, in a seeded order; check the survivors after every batch
        let mut order: Vec<usize> = (0..n).collect();
        for i in (1..order.len()).rev() {
            order.swap(i, r.below(i + 1));
        }
        let keep = r.range(3, 40);
        for (j, i) in order.iter().enumerate().take(n - keep) {
            if !reg.delete_counter(&key(*i)) {
                fails.push(format!("delete_counter({}) answered false for a live key", i));
            }
            live.remove(i);
            if j % 97 == 0 || j + 1 == n - keep {
                for (k, a) in live.iter().take(50) {
                    match reg.get_counter(&key(*k)) {
                        Some(h) if h.addr() == *a => {}
                        Some(_) => fails.push(format!("get_counter({}) returned another storage after {} deletions", k, j + 1)),
                        None => fails.push(format!("get_counter({}) finds nothing after {} deletions of OTHER keys", k, j + 1)),
                    }
                }
            }
        }
        // survivors: get_or_create must hit, listings must agree
        for (k, a) in live.iter() {
            let b = reg.get_or_create_counter(&key(*k), |c| c.addr());
            if b != *a {
                fails.push(format!("get_or_create_counter({}) of a live key made a second storage", k));
            }
        }
        let mut visited = 0usize;
        reg.visit_counters(|_, _| visited += 1);
        if visited != live.len() || reg.get_counter_handles().len() != live.len() {
            fails.push(format!("listing shows {} entries / handles {} for {} live keys", visited, reg.get_counter_handles().len(), live.len()));
        }
        // grow again
        for i in 0..n / 2 {
            let a = reg.get_or_create_counter(&key(i), |c| c.addr());
            if let Some(old) = live.get(&i) {
                if *old != a {
                    fails.push(format!("after regrowth get_or_create_counter({}) of a live key made a second storage", i));
                }
            }
            live.insert(i, a);
        }
        for (k, a) in live.iter() {
            if reg.get_counter(&key(*k)).map(|h| h.addr()) != Some(*a) {
                fails.push(format!("after regrowth get_counter({}) does not return the key's storage", k));
                break;
            }
        }
        out.count("churn.third_party_rounds");
        out.nontrivial();
        if let Some(f) = fails.first() {
            out.oracle_fail(
                "third-party keys: after the table grew / shrank, a live key is not found under its one storage (or a delete / listing is untruthful)",
                &format!("{} keys, {} kept; {} failures, first: {}", n, keep, fails.len(), f),
            );
        }
    }
    // the same churn with ordinary Keys on Registry::atomic()
    out.case("churn metrics::Key");
    let reg: Registry<Key, AtomicStorage> = Registry::atomic();
    let n = r.range(300, 1200);
    let key = |i: usize| Key::from_parts(format!("churn_k_{}", i), vec![Label::new("i", (i % 7).to_string())]);
    let mut live: BTreeMap<usize, usize> = BTreeMap::new();
    let mut bad = 0usize;
    for i in 0..n {
        live.insert(i, reg.get_or_create_gauge(&key(i), |c| c.addr()));
    }
    for i in 0..n {
        if i % 11 != 0 {
            if !reg.delete_gauge(&key(i)) {
                bad += 1;
            }
            live.remove(&i);
        }
    }
    for (k, a) in live.iter() {
        if reg.get_or_create_gauge(&key(*k), |c| c.addr()) != *a {
            bad += 1;
        }
    }
    let mut visited = 0usize;
    reg.visit_gauges(|_, _| visited += 1);
    if bad > 0 || visited != live.len() {
        out.oracle_fail("metrics::Key: after the table grew / shrank, a live key is not found under its one storage", &format!("{} keys, {} bad answers, visit shows {} of {}", n, bad, visited, live.len()));
    }
    out.count("churn.key_round");
}

/// (round 5, after seed C06-9) keys whose label slices ALIAS each other — prefixes of different length of one static
/// label array, and a static slice next to an owned copy of it — are different keys exactly when their contents
/// differ: they must compare unequal, get their own storages, and be listed separately. (An equality shortcut on the
/// slice's address makes the prefixes "equal" although they hash differently: they then share a storage whenever the
/// hashes collide in shard and tag.) Oracle only.
fn aliasing_slices_case(out: &mut Out) {
    out.case("aliasing label slices");
    static LABELS: [Label; 4] = [
        Label::from_static_parts("a", "1"),
        Label::from_static_parts("b", "2"),
        Label::from_static_parts("c", "3"),
        Label::from_static_parts("d", "4"),
    ];
    let mut keys: Vec<(usize, Key)> = vec![];
    for n in 0..=4usize {
        keys.push((n, Key::from_static_parts("alias", &LABELS[..n])));
        keys.push((n, Key::from_parts("alias", LABELS[..n].to_vec())));
        keys.push((n, Key::from_static_labels("alias".to_string(), &LABELS[..n])));
    }
    let mut bad = vec![];
    for (i, (ni, ki)) in keys.iter().enumerate() {
        for (j, (nj, kj)) in keys.iter().enumerate() {
            let want = ni == nj;
            if (ki == kj) != want || (want && ki.get_hash() != kj.get_hash()) {
                bad.push(format!("keys #{} ({} labels) and #{} ({} labels): == is {} (want {}), hashes {:#x} / {:#x}", i, ni, j, nj, ki == kj, want, ki.get_hash(), kj.get_hash()));
            }
        }
    }
    let reg: Registry<Key, AtomicStorage> = Registry::atomic();
    let mut addr: BTreeMap<usize, usize> = BTreeMap::new();
    for (n, k) in &keys {
        let a = reg.get_or_create_counter(k, |c| c.addr());
        match addr.get(n) {
            Some(b) if *b != a => bad.push(format!("equal keys with {} labels got two storages", n)),
            None => {
                if addr.values().any(|b| *b == a) {
                    bad.push(format!("the key with {} labels was given the storage of a key with another label count", n));
                }
                addr.insert(*n, a);
            }
            _ => {}
        }
    }
    if reg.get_counter_handles().len() != 5 {
        bad.push(format!("listing shows {} keys, 5 distinct keys were registered", reg.get_counter_handles().len()));
    }
    out.count("aliasing label slices");
    out.nontrivial();
    if let Some(f) = bad.first() {
        out.oracle_fail("keys over aliasing label slices: equality / storage identity does not follow the contents", &format!("{} problems, first: {}", bad.len(), f));
    }
}

/// The innocent witness, run once per check and only counted: 64 distinct `SipKey`s (derived `Hash`,
/// `type Hasher = std DefaultHasher`, default `hashable()`), each registered twice as a counter on a fresh registry.
/// (Not compared with the model: with two unrelated hash functions a lookup may hit by an accidental 7-bit tag match.)
fn sip_key_witness(out: &mut Out) {
    fn classify(k: &SipKey) -> String {
        k.0.clone()
    }
    let ctr = Arc::new(AtomicUsize::new(0));
    let reg = Registry::new(CountingStorage::<SipKey> { next: ctr.clone(), classify });
    let mut twice = 0;
    for i in 0..64 {
        let k = SipKey(format!("requests_total_{}", i));
        let a = reg.get_or_create_counter(&k, |c| c.addr());
        let b = reg.get_or_create_counter(&k.clone(), |c| c.addr());
        if a != b {
            twice += 1;
        }
    }
    let listed = reg.get_counter_handles().len();
    let mut visited = 0;
    reg.visit_counters(|_, _| visited += 1);
    let found = (0..64).filter(|i| reg.get_counter(&SipKey(format!("requests_total_{}", i))).is_some()).count();
    if twice > 0 || visited != 64 || found != 64 {
        out.case("sipkey witness");
        out.oracle_fail(
            "equal keys of a third-party key type (derived Hash, std DefaultHasher, default hashable()) got two storages / are not found again",
            &format!("64 keys x 2 get_or_create_counter: {} keys got two storages, {} storages made, visit shows {} entries, get_counter finds {}", twice, ctr.load(Ordering::SeqCst), visited, found),
        );
    }
    out.count(&format!(
        "sipkey: 64 keys x 2 get_or_create: {} keys got two storages, {} storages made, visit shows {} entries, handles map {} keys, get_counter finds {}",
        twice,
        ctr.load(Ordering::SeqCst),
        visited,
        listed,
        found
    ));
}

// ---------------------------------------------------------------------------------------------
// stream K (round 3, after seeded miss C06-6): keys whose memoised hash is filled lazily (static construction — what the
// macros emit) are cloned by some threads while another makes the first `get_hash()` call, under EVERY interleaving of
// the yield points inside `Key::get_hash` / `Key::clone`; then the original and every clone are registered. They are
// equal keys: one storage, listed once, and deleting through a clone removes it. (That the memo protocol itself is
// coherent is C03's subject; here the consequence for the registry is checked on the real registry.)

#[cfg(has_cow_hook)]
fn lazy_clone_cases(out: &mut Out, r: &mut Rng, thorough: bool) {
    use crate::c03;
    let role_sets: Vec<&'static [u8]> = if thorough { vec![b"hc", b"ch", b"hcc", b"chc", b"cch"] } else { vec![b"hc", b"hcc"] };
    for roles in role_sets {
        // two grants more per thread than the calls need today, so that a version of `get_hash` / `clone` with more
        // (or re-ordered) shared-memory steps is still interleaved at every one of them, not run to completion by
        // the scheduler's fallback
        let counts: Vec<usize> = c03::grants_of(roles).iter().map(|g| g + 2).collect();
        let scheds: Vec<Vec<usize>> = if roles.len() == 2 {
            c03::all_interleavings(&counts) // 462
        } else {
            // three threads: a seeded sample of shuffled multisets
            (0..if thorough { 1500 } else { 120 })
                .map(|_| {
                    let mut s: Vec<usize> = counts.iter().enumerate().flat_map(|(t, n)| vec![t; *n]).collect();
                    for i in (1..s.len()).rev() {
                        s.swap(i, r.below(i + 1));
                    }
                    s
                })
                .collect()
        };
        for (si, sch) in scheds.iter().enumerate() {
            out.case(&format!("lazy-clone roles={} sched#{}", String::from_utf8_lossy(roles), si));
            let kind = (si % 3) as u8;
            let name: &'static str = Box::leak(format!("lazy{}", si % 5).into_boxed_str());
            let labels: &'static [Label] = Box::leak(vec![Label::from_static_parts("x", "0"), Label::from_static_parts("y", "1")].into_boxed_slice());
            let key: &'static Key = Box::leak(Box::new(match si % 2 {
                0 => Key::from_static_parts(name, labels),
                _ => Key::from_static_labels(name.to_string(), labels),
            }));
            let rv = roles.to_vec();
            let (trace, res) = c03::sched::run(roles.len(), sch, move |t| {
                c03::sched::point("start");
                if rv[t] == b'h' {
                    let _ = key.get_hash();
                    None
                } else {
                    Some(key.clone())
                }
            });
            let mut sut: Sut<Key, AtomicStorage> = Sut::new(Registry::atomic());
            let mut rf = RefMap::default();
            out.op(&format!("registry new {}", sut.mask + 1), "ok");
            let kt = kind_tok(kind);
            let canon = canon_key(key);
            let g0 = sut.goc(kind, key);
            out.op(&format!("registry goc {} 0:{}:{}", kt, key.hashable(), map_hash(&key)), &g0.id.to_string());
            rf.goc(out, kind, 0, &g0, &canon);
            let grants = || list(trace.iter().map(|(t, id)| format!("{}:{}", t, id)));
            let mut last: Option<Key> = None;
            for cl in res.into_iter().flatten() {
                if cl != *key {
                    out.oracle_fail("a clone taken while the original was being hashed for the first time is not == the original", &grants());
                }
                let g = sut.goc(kind, &cl);
                out.op(&format!("registry goc {} 0:{}:{}", kt, cl.hashable(), map_hash(&cl)), &g.id.to_string());
                let before = out.n_oracle_fail;
                rf.goc(out, kind, 0, &g, &canon);
                if out.n_oracle_fail != before {
                    out.oracle_fail(
                        "equal keys, two storages: a clone taken while the original key was being hashed for the first time was given its own storage",
                        &format!("roles {}, grants {}: original hashes to {:#x}, the clone to {:#x}", String::from_utf8_lossy(roles), grants(), key.hashable(), cl.hashable()),
                    );
                }
                last = Some(cl);
            }
            let v = sut.handles(kind);
            let mut ans: Vec<(usize, usize)> = v.iter().map(|(_, g)| (0usize, g.id)).collect();
            out.op(&format!("registry handles {}", kt), &pairs_tok(&mut ans));
            let got: Vec<(usize, usize)> = v.iter().map(|(_, g)| (0usize, g.addr)).collect();
            rf.check_listing(out, "get_*_handles", kind, &got);
            if let Some(cl) = last {
                let b = sut.del(kind, &cl);
                out.op(&format!("registry del {} 0:{}:{}", kt, cl.hashable(), map_hash(&cl)), &b.to_string());
                rf.del(out, kind, 0, b);
                let g = sut.get(kind, key);
                out.op(&format!("registry get {} 0:{}:{}", kt, key.hashable(), map_hash(&key)), &g.as_ref().map_or("~".to_string(), |g| g.id.to_string()));
                rf.get(out, kind, 0, &g);
            }
            out.count("lazy-clone schedules");
            out.nontrivial();
        }
    }
}
#[cfg(not(has_cow_hook))]
fn lazy_clone_cases(out: &mut Out, _: &mut Rng, _: bool) {
    out.count("lazy-clone schedules skipped (cow-clone hook absent)");
}

// ---------------------------------------------------------------------------------------------
// stream B

#[derive(Clone, Copy, PartialEq, Debug)]
enum OpK {
    Goc,
    Get,
    Del,
}

#[derive(Clone, Debug)]
struct BCall {
    op: OpK,
    kind: u8,
    cls: usize,
    key: Key,
}

fn call_tok(c: &BCall) -> String {
    let o = match c.op {
        OpK::Goc => "g",
        OpK::Get => "r",
        OpK::Del => "d",
    };
    format!("{}/{}/{}:{}:{}", o, kind_tok(c.kind), c.cls, c.key.get_hash(), map_hash(&c.key))
}

fn prog_tok(p: &[BCall]) -> String {
    if p.is_empty() {
        "-".into()
    } else {
        p.iter().map(call_tok).collect::<Vec<_>>().join("+")
    }
}

#[derive(Clone, Debug)]
enum BRes {
    Id(Got),
    Opt(Option<Got>),
    Bool(bool),
}

fn res_tok(r: &BRes) -> String {
    match r {
        BRes::Id(g) => g.id.to_string(),
        BRes::Opt(None) => "~".into(),
        BRes::Opt(Some(g)) => format!("s{}", g.id),
        BRes::Bool(true) => "t".into(),
        BRes::Bool(false) => "f".into(),
    }
}

type BReg = Registry<Key, CountingStorage<Key>>;

fn got_of(h: &H) -> Got {
    Got { addr: h.addr(), id: h.0.id, kind: Some(h.0.kind), canon: Some(h.0.canon.clone()) }
}

fn do_call(reg: &BReg, c: &BCall, keep: &Mutex<Vec<H>>) -> BRes {
    let k = &c.key;
    match c.op {
        OpK::Goc => {
            let h = match c.kind {
                0 => reg.get_or_create_counter(k, |h| h.clone()),
                1 => reg.get_or_create_gauge(k, |h| h.clone()),
                _ => reg.get_or_create_histogram(k, |h| h.clone()),
            };
            let g = got_of(&h);
            keep.lock().unwrap().push(h);
            BRes::Id(g)
        }
        OpK::Get => {
            let h = match c.kind {
                0 => reg.get_counter(k),
                1 => reg.get_gauge(k),
                _ => reg.get_histogram(k),
            };
            let g = h.as_ref().map(got_of);
            if let Some(h) = h {
                keep.lock().unwrap().push(h);
            }
            BRes::Opt(g)
        }
        OpK::Del => BRes::Bool(match c.kind {
            0 => reg.delete_counter(k),
            1 => reg.delete_gauge(k),
            _ => reg.delete_histogram(k),
        }),
    }
}

struct BOutcome {
    pre_results: Vec<BRes>,
    results: Vec<Vec<BRes>>,
    listing: [Vec<(usize, Got)>; 3],
    created: usize,
    mask: usize,
    run: sched::RunResult,
    _keep: Vec<H>,
}

fn b_execute(pre: &[BCall], progs: &[Vec<BCall>], classes: &[(String, usize)], schedule: &[usize]) -> BOutcome {
    let ctr = Arc::new(AtomicUsize::new(0));
    let reg: Arc<BReg> = Arc::new(Registry::new(CountingStorage::<Key> { next: ctr.clone(), classify: canon_key }));
    let dbg = format!("{:?}", reg);
    let mask = dbg
        .rsplit("shard_mask: ")
        .next()
        .and_then(|s| s.split(|c: char| !c.is_ascii_digit()).next())
        .and_then(|s| s.parse::<usize>().ok())
        .expect("shard_mask");
    let keep: Arc<Mutex<Vec<H>>> = Arc::new(Mutex::new(vec![]));
    let pre_results: Vec<BRes> = pre.iter().map(|c| do_call(&reg, c, &keep)).collect();
    let results: Arc<Mutex<Vec<Vec<BRes>>>> = Arc::new(Mutex::new(vec![vec![]; progs.len()]));
    let mut bodies: Vec<Box<dyn FnOnce() + Send + 'static>> = vec![];
    for (t, prog) in progs.iter().enumerate() {
        let prog = prog.clone();
        let reg = reg.clone();
        let keep = keep.clone();
        let results = results.clone();
        bodies.push(Box::new(move || {
            for c in prog {
                let r = do_call(&reg, &c, &keep);
                results.lock().unwrap()[t].push(r);
            }
        }));
    }
    let run = sched::run(bodies, schedule);
    let cls_of = |k: &Key| {
        let c = canon_key(k);
        classes.iter().find(|(x, _)| *x == c).map(|(_, i)| *i).unwrap_or(usize::MAX)
    };
    let mut listing: [Vec<(usize, Got)>; 3] = [vec![], vec![], vec![]];
    reg.visit_counters(|k, h| listing[0].push((cls_of(k), got_of(h))));
    reg.visit_gauges(|k, h| listing[1].push((cls_of(k), got_of(h))));
    reg.visit_histograms(|k, h| listing[2].push((cls_of(k), got_of(h))));
    // number of storages the factory made
    let created = ctr.load(Ordering::SeqCst);
    let res = results.lock().unwrap().clone();
    let k = keep.lock().unwrap().clone();
    BOutcome { pre_results, results: res, listing, created, mask, run, _keep: k }
}

fn b_answer(o: &BOutcome) -> String {
    let labels: Vec<&str> = o.run.trace.iter().map(|(_, id)| *id).collect();
    let res = list(o.results.iter().map(|r| if r.is_empty() { ".".to_string() } else { r.iter().map(res_tok).collect::<Vec<_>>().join("+") }));
    let fin: Vec<String> = o
        .listing
        .iter()
        .map(|l| {
            let mut v: Vec<(usize, usize)> = l.iter().map(|(c, g)| (*c, g.id)).collect();
            pairs_tok(&mut v)
        })
        .collect();
    format!("{} | {} | {} | created={}", if labels.is_empty() { String::new() } else { labels.join(".") }, res, fin.join(" "), o.created)
}

fn b_op_line(o: &BOutcome, pre: &[BCall], progs: &[Vec<BCall>]) -> String {
    let taken: Vec<usize> = o.run.trace.iter().map(|(t, _)| *t).collect();
    format!(
        "registry run {} {} {} {}",
        o.mask + 1,
        prog_tok(pre),
        list(progs.iter().map(|p| prog_tok(p))),
        sched::sched_tok(&taken)
    )
}

/// replays the reference map in the order in which the calls took effect (each call's last grant)
fn b_oracle(out: &mut Out, pre: &[BCall], progs: &[Vec<BCall>], o: &BOutcome) -> bool {
    if o.run.deadlock || o.run.timed_out || !o.run.panicked.is_empty() {
        out.oracle_fail("registry race: deadlock, timeout or panic", &format!("{:?}", o.run));
        return false;
    }
    let mut rf = RefMap::default();
    let apply = |rf: &mut RefMap, out: &mut Out, c: &BCall, r: &BRes| match (c.op, r) {
        (OpK::Goc, BRes::Id(g)) => {
            rf.goc(out, c.kind, c.cls, g, &canon_key(&c.key));
        }
        (OpK::Get, BRes::Opt(g)) => rf.get(out, c.kind, c.cls, g),
        (OpK::Del, BRes::Bool(b)) => rf.del(out, c.kind, c.cls, *b),
        _ => out.oracle_fail("call returned a result of the wrong shape", &format!("{:?}", c.op)),
    };
    for (c, r) in pre.iter().zip(o.pre_results.iter()) {
        apply(&mut rf, out, c, r);
    }
    let mut lin: Vec<(usize, usize, usize)> = vec![];
    for t in 0..progs.len() {
        let mut ci: isize = -1;
        let mut last = 0;
        for (gi, (tt, id)) in o.run.trace.iter().enumerate() {
            if *tt != t || *id == "start" {
                continue;
            }
            if *id != "reg.goc.write" {
                if ci >= 0 {
                    lin.push((last, t, ci as usize));
                }
                ci += 1;
            }
            last = gi;
        }
        if ci >= 0 {
            lin.push((last, t, ci as usize));
        }
    }
    lin.sort();
    let total: usize = progs.iter().map(|p| p.len()).sum();
    if lin.len() != total || o.results.iter().zip(progs).any(|(r, p)| r.len() != p.len()) {
        out.oracle_fail("some call did not complete, or stopped at unexpected yield points", &format!("{:?}", o.run.trace));
        return false;
    }
    for (_, t, ci) in &lin {
        apply(&mut rf, out, &progs[*t][*ci], &o.results[*t][*ci]);
    }
    for kd in 0..3u8 {
        let got: Vec<(usize, usize)> = o.listing[kd as usize].iter().map(|(c, g)| (*c, g.addr)).collect();
        rf.check_listing(out, "visit_* after the race", kd, &got);
    }
    if o.created != rf.created {
        out.oracle_fail(
            "number of storages created differs from the number of (kind, key) lifetimes started",
            &format!("created {} lifetimes {}", o.created, rf.created),
        );
    }
    // a write section that found the key present on its re-check
    let writes = o.run.trace.iter().filter(|(_, id)| *id == "reg.goc.write").count();
    let pre_created = pre.iter().zip(&o.pre_results).filter(|(c, _)| c.op == OpK::Goc).count().min(o.created);
    let _ = pre_created;
    writes > 0
}

fn b_one(out: &mut Out, pre: &[BCall], progs: &[Vec<BCall>], classes: &[(String, usize)], sch: &[usize]) {
    let o = b_execute(pre, progs, classes, sch);
    out.op(&b_op_line(&o, pre, progs), &b_answer(&o));
    b_oracle(out, pre, progs, &o);
    let writes = o.run.trace.iter().filter(|(_, id)| *id == "reg.goc.write").count();
    let creations_in_race = o.created.saturating_sub(
        o.pre_results.iter().filter_map(|r| if let BRes::Id(g) = r { Some(g.id + 1) } else { None }).max().unwrap_or(0),
    );
    if writes > creations_in_race {
        out.nontrivial();
        out.count("race.recheck_found_entry");
    }
    if writes > 0 {
        out.count("race.some_write_section");
    }
}

fn b_gen(r: &mut Rng, out: &mut Out) -> (Vec<BCall>, Vec<Vec<BCall>>, Vec<(String, usize)>) {
    // (round 4) one case in three races in a POPULATED shard: 4-6 classes filtered into one shard, 3-4 of them
    // registered beforehand in the raced kind (hashbrown's smallest table holds 3 entries: the racing creators' inserts
    // make it grow between one thread's read miss and its write-section re-check), all calls in that one kind
    let populated = r.chance(1, 3);
    let ns = if populated { r.range(4, 6) } else { r.range(1, 2) };
    let pool = key_pool(r, out, ns, if populated { Some(real_mask()) } else { None });
    let classes = cls_table(&pool);
    let kind0 = [0u8, 1, 2][r.weighted(&[4, 1, 2])];
    let mk = |r: &mut Rng, op: OpK| {
        let (cls, key) = r.pick(&pool).clone();
        // all three kinds: the three get_or_create_* are separate copies of the race-sensitive code
        let kind = if populated { kind0 } else { [0u8, 1, 2][r.weighted(&[4, 1, 2])] };
        let _ = key.get_hash();
        BCall { op, kind, cls, key }
    };
    let pre: Vec<BCall> = if populated {
        out.count("race.populated_shard");
        let mut seen_cls: Vec<usize> = vec![];
        let mut v = vec![];
        let want = r.range(3, 4);
        for (cls, key) in &pool {
            if seen_cls.len() < want && !seen_cls.contains(cls) {
                seen_cls.push(*cls);
                let _ = key.get_hash();
                v.push(BCall { op: OpK::Goc, kind: kind0, cls: *cls, key: key.clone() });
            }
        }
        v
    } else {
        (0..r.below(3)).map(|_| mk(r, OpK::Goc)).collect()
    };
    let n = r.range(2, 3);
    let mut progs = vec![];
    for _ in 0..n {
        let len = r.range(1, 3);
        let mut p = vec![];
        for _ in 0..len {
            let op = match r.weighted(&[55, 30, 15]) {
                0 => OpK::Goc,
                1 => OpK::Del,
                _ => OpK::Get,
            };
            p.push(mk(r, op));
        }
        progs.push(p);
    }
    out.count(&format!("race.threads={}", n));
    (pre, progs, classes)
}

/// two differently built keys of one class and one key of another class, for the exhaustive configurations
fn fixed_keys() -> (Vec<(usize, Key)>, Vec<(String, usize)>) {
    let a1 = Key::from_parts("reqs", vec![Label::new("x", "1"), Label::new("y", "2"), Label::new("z", "0")]);
    static LS: [Label; 3] =
        [Label::from_static_parts("z", "0"), Label::from_static_parts("x", "1"), Label::from_static_parts("y", "2")];
    let a2 = Key::from_static_parts("reqs", &LS);
    let a3 = Key::from_parts("reqs", vec![Label::new("y", "2")]).with_extra_labels(vec![Label::new("z", "0"), Label::new("x", "1")]);
    let b1 = Key::from_name("lat");
    for k in [&a1, &a2, &a3, &b1] {
        let _ = k.get_hash();
    }
    let pool = vec![(0, a1), (0, a2), (0, a3), (1, b1)];
    let classes = cls_table(&pool);
    (pool, classes)
}


// ---------------------------------------------------------------------------------------------
// stream C: sweeps (clear / retain_* / visit_*) against threads that hold a shard lock
//
// A thread parked INSIDE a callback of the registry (the `op` closure of get_or_create_*, the visitor of
// visit_*, the predicate of retain_*) holds that shard's RwLock.  A sweep that reaches the shard must WAIT.
// `clear` has no yield points, so a waiting sweep is a thread that is really blocked in `RwLock::write`; the
// controller below knows which locks are held (it put the holders there), grants such a sweep "detached",
// lets only lock holders move while it is in flight (everything they still do lies at or behind the shard the
// sweep waits for, so the order of the lock sections is fixed whatever the OS does), and joins it as soon as
// nothing it needs is held any more.  The executed history is replayed on the Lean machine `lrun`
// (Model/Registry.lean: `lstep`, `sweepRun`), where a token for a waiting sweep is a stutter.
//
// Timing only matters for how likely a DEFECT shows (a sweep that skips instead of waiting has `GRACE` to get
// to the held shard before the holder lets go); on correct code no outcome depends on it.

mod lsched {
    use std::cell::RefCell;
    use std::sync::{Arc, Condvar, Mutex};
    use std::time::{Duration, Instant};

    #[derive(Clone, Copy, PartialEq, Debug)]
    pub enum Stat {
        Running,
        Parked(&'static str),
        Finished,
    }
    struct St {
        status: Vec<Stat>,
        turn: Option<usize>,
        free_run: bool,
    }
    pub struct Ctl {
        st: Mutex<St>,
        cv: Condvar,
    }
    thread_local! {
        static ME: RefCell<Option<(Arc<Ctl>, usize)>> = RefCell::new(None);
    }
    fn hook(id: &'static str) {
        let me = ME.with(|m| m.borrow().clone());
        if let Some((s, t)) = me {
            s.park(t, id);
        }
    }
    impl Ctl {
        fn park(&self, t: usize, id: &'static str) {
            let mut st = self.st.lock().unwrap();
            if st.free_run {
                return;
            }
            st.status[t] = Stat::Parked(id);
            self.cv.notify_all();
            while st.turn != Some(t) && !st.free_run {
                st = self.cv.wait(st).unwrap();
            }
            if st.turn == Some(t) {
                st.turn = None;
            }
            st.status[t] = Stat::Running;
        }
        pub fn spawn(bodies: Vec<Box<dyn FnOnce() + Send + 'static>>) -> (Arc<Ctl>, Vec<std::thread::JoinHandle<bool>>) {
            let n = bodies.len();
            let s = Arc::new(Ctl { st: Mutex::new(St { status: vec![Stat::Running; n], turn: None, free_run: false }), cv: Condvar::new() });
            metrics::verif::set_hook(Some(hook));
            let mut hs = vec![];
            for (t, body) in bodies.into_iter().enumerate() {
                let s2 = s.clone();
                hs.push(std::thread::spawn(move || {
                    ME.with(|m| *m.borrow_mut() = Some((s2.clone(), t)));
                    s2.park(t, "start");
                    let r = std::panic::catch_unwind(std::panic::AssertUnwindSafe(body));
                    ME.with(|m| *m.borrow_mut() = None);
                    let mut st = s2.st.lock().unwrap();
                    st.status[t] = Stat::Finished;
                    s2.cv.notify_all();
                    r.is_ok()
                }));
            }
            (s, hs)
        }
        /// waits until no thread except `ignore` is running; false on timeout
        pub fn wait_quiet(&self, ignore: Option<usize>, max: Duration) -> bool {
            let deadline = Instant::now() + max;
            let mut st = self.st.lock().unwrap();
            loop {
                let busy = st.turn.is_some() || st.status.iter().enumerate().any(|(i, x)| Some(i) != ignore && *x == Stat::Running);
                if !busy {
                    return true;
                }
                let now = Instant::now();
                if now >= deadline {
                    return false;
                }
                let (g, _) = self.cv.wait_timeout(st, (deadline - now).min(Duration::from_millis(50))).unwrap();
                st = g;
            }
        }
        pub fn status(&self) -> Vec<Stat> {
            self.st.lock().unwrap().status.clone()
        }
        pub fn grant(&self, t: usize) {
            let mut st = self.st.lock().unwrap();
            st.turn = Some(t);
            st.status[t] = Stat::Running;
            self.cv.notify_all();
        }
        /// waits until the grant has been taken (the thread left its park)
        pub fn wait_taken(&self, max: Duration) -> bool {
            let deadline = Instant::now() + max;
            let mut st = self.st.lock().unwrap();
            while st.turn.is_some() {
                let now = Instant::now();
                if now >= deadline {
                    return false;
                }
                let (g, _) = self.cv.wait_timeout(st, (deadline - now).min(Duration::from_millis(50))).unwrap();
                st = g;
            }
            true
        }
        pub fn release_all(&self) {
            let mut st = self.st.lock().unwrap();
            st.free_run = true;
            self.cv.notify_all();
        }
        pub fn done() {
            metrics::verif::set_hook(None);
        }
    }
}

#[derive(Clone, Debug, PartialEq)]
enum LOp {
    Goc,
    Get,
    Del,
    Clear,
    Visit { hold: bool },
    Retain { keep: Vec<usize>, hold: bool },
}

#[derive(Clone, Debug)]
struct LCallR {
    op: LOp,
    kind: u8,
    cls: usize,
    key: Key,
}

impl LCallR {
    #[allow(dead_code)]
    fn is_sweep(&self) -> bool {
        matches!(self.op, LOp::Clear | LOp::Visit { .. } | LOp::Retain { .. })
    }
}

fn lcall_tok(c: &LCallR) -> String {
    let kt = kind_tok(c.kind);
    match &c.op {
        LOp::Goc => format!("g/{}/{}:{}:{}", kt, c.cls, c.key.get_hash(), map_hash(&c.key)),
        LOp::Get => format!("r/{}/{}:{}:{}", kt, c.cls, c.key.get_hash(), map_hash(&c.key)),
        LOp::Del => format!("d/{}/{}:{}:{}", kt, c.cls, c.key.get_hash(), map_hash(&c.key)),
        LOp::Clear => "c".to_string(),
        LOp::Visit { hold } => format!("v/{}/{}", kt, *hold as u8),
        LOp::Retain { keep, hold } => format!(
            "t/{}/{}/{}",
            kt,
            if keep.is_empty() { "-".to_string() } else { keep.iter().map(|c| c.to_string()).collect::<Vec<_>>().join("_") },
            *hold as u8
        ),
    }
}

fn lprog_tok(p: &[LCallR]) -> String {
    if p.is_empty() {
        "-".into()
    } else {
        p.iter().map(lcall_tok).collect::<Vec<_>>().join("+")
    }
}

#[derive(Clone, Debug)]
enum LResR {
    Id(Got),
    Opt(Option<Got>),
    Bool(bool),
    Unit,
    Listing(Vec<(usize, Got)>),
}

fn lres_tok(r: &LResR) -> String {
    match r {
        LResR::Id(g) => g.id.to_string(),
        LResR::Opt(None) => "~".into(),
        LResR::Opt(Some(g)) => format!("s{}", g.id),
        LResR::Bool(true) => "t".into(),
        LResR::Bool(false) => "f".into(),
        LResR::Unit => "u".into(),
        LResR::Listing(l) => {
            let mut v: Vec<(usize, usize)> = l.iter().map(|(c, g)| (*c, g.id)).collect();
            v.sort();
            format!("L{}", v.iter().map(|(c, i)| format!("{}:{}", c, i)).collect::<Vec<_>>().join("_"))
        }
    }
}

/// how long a sweep that is expected to wait for a held lock is given to get there (only a defective sweep,
/// one that does not wait, can finish within it)
const GRACE: std::time::Duration = std::time::Duration::from_millis(12);
const STUCK: std::time::Duration = std::time::Duration::from_secs(20);

#[derive(Clone, Copy, Debug, PartialEq)]
struct Held {
    kind: u8,
    shard: usize,
    write: bool,
}

struct SweepNote {
    thread: usize,
    call: usize,
    /// storages made before the sweep was started
    created_before: usize,
    /// a holder was inside a shard the sweep needs when it was started
    contended: bool,
}

#[allow(dead_code)]
struct LOutcome {
    pre_results: Vec<BRes>,
    results: Vec<Vec<LResR>>,
    listing: [Vec<(usize, Got)>; 3],
    created: usize,
    mask: usize,
    trace: Vec<(usize, &'static str)>,
    sweeps: Vec<SweepNote>,
    problem: Option<String>,
    _keep: Vec<H>,
}

fn l_do_call(reg: &BReg, c: &LCallR, keep: &Mutex<Vec<H>>, classes: &[(String, usize)], mask: usize, park_at: &AtomicUsize) -> LResR {
    let cls_of = |k: &Key| {
        let cn = canon_key(k);
        classes.iter().find(|(x, _)| *x == cn).map(|(_, i)| *i).unwrap_or(usize::MAX)
    };
    let k = &c.key;
    match &c.op {
        LOp::Goc => {
            // the `op` closure runs under the shard lock: park there
            let op = |h: &H| {
                metrics::verif::point("reg.goc.op");
                h.clone()
            };
            let h = match c.kind {
                0 => reg.get_or_create_counter(k, op),
                1 => reg.get_or_create_gauge(k, op),
                _ => reg.get_or_create_histogram(k, op),
            };
            let g = got_of(&h);
            keep.lock().unwrap().push(h);
            LResR::Id(g)
        }
        LOp::Get => {
            let h = match c.kind {
                0 => reg.get_counter(k),
                1 => reg.get_gauge(k),
                _ => reg.get_histogram(k),
            };
            let g = h.as_ref().map(got_of);
            if let Some(h) = h {
                keep.lock().unwrap().push(h);
            }
            LResR::Opt(g)
        }
        LOp::Del => LResR::Bool(match c.kind {
            0 => reg.delete_counter(k),
            1 => reg.delete_gauge(k),
            _ => reg.delete_histogram(k),
        }),
        LOp::Clear => {
            metrics::verif::point("reg.sweep");
            reg.clear();
            LResR::Unit
        }
        LOp::Visit { hold } => {
            metrics::verif::point("reg.sweep");
            let park_shard = park_at.load(Ordering::SeqCst); // set by the controller when it grants the call
            let mut parked = false;
            let mut v: Vec<(usize, Got)> = vec![];
            let mut f = |k: &Key, h: &H| {
                if *hold && !parked && (k.get_hash() as usize & mask) == park_shard {
                    parked = true;
                    metrics::verif::point("reg.visit.cb");
                }
                v.push((cls_of(k), got_of(h)));
            };
            match c.kind {
                0 => reg.visit_counters(&mut f),
                1 => reg.visit_gauges(&mut f),
                _ => reg.visit_histograms(&mut f),
            }
            LResR::Listing(v)
        }
        LOp::Retain { keep: kp, hold } => {
            metrics::verif::point("reg.sweep");
            let park_shard = park_at.load(Ordering::SeqCst);
            let mut parked = false;
            let mut v: Vec<(usize, Got)> = vec![];
            let mut f = |k: &Key, h: &H| {
                if *hold && !parked && (k.get_hash() as usize & mask) == park_shard {
                    parked = true;
                    metrics::verif::point("reg.retain.cb");
                }
                let c = cls_of(k);
                v.push((c, got_of(h)));
                kp.contains(&c)
            };
            match c.kind {
                0 => reg.retain_counters(&mut f),
                1 => reg.retain_gauges(&mut f),
                _ => reg.retain_histograms(&mut f),
            }
            LResR::Listing(v)
        }
    }
}

/// runs the programs on real threads; every choice of the controller comes from `r`
fn l_execute(pre: &[BCall], progs: &[Vec<LCallR>], classes: &[(String, usize)], r: &mut Rng) -> LOutcome {
    use lsched::{Ctl, Stat};
    use std::sync::atomic::AtomicUsize as AU;
    let ctr = Arc::new(AtomicUsize::new(0));
    let reg: Arc<BReg> = Arc::new(Registry::new(CountingStorage::<Key> { next: ctr.clone(), classify: canon_key }));
    let dbg = format!("{:?}", reg);
    let mask = dbg
        .rsplit("shard_mask: ")
        .next()
        .and_then(|s| s.split(|c: char| !c.is_ascii_digit()).next())
        .and_then(|s| s.parse::<usize>().ok())
        .expect("shard_mask");
    let keep: Arc<Mutex<Vec<H>>> = Arc::new(Mutex::new(vec![]));
    let pre_results: Vec<BRes> = pre.iter().map(|c| do_call(&reg, c, &keep)).collect();
    let n = progs.len();
    let results: Arc<Mutex<Vec<Vec<LResR>>>> = Arc::new(Mutex::new(vec![vec![]; n]));
    let park_shard: Arc<Vec<AU>> = Arc::new((0..n).map(|_| AU::new(usize::MAX)).collect());
    let classes_a: Arc<Vec<(String, usize)>> = Arc::new(classes.to_vec());
    let mut bodies: Vec<Box<dyn FnOnce() + Send + 'static>> = vec![];
    for (t, prog) in progs.iter().enumerate() {
        let (prog, reg, keep, results, park_shard, classes_a) = (prog.clone(), reg.clone(), keep.clone(), results.clone(), park_shard.clone(), classes_a.clone());
        bodies.push(Box::new(move || {
            for c in prog {
                let res = l_do_call(&reg, &c, &keep, &classes_a, mask, &park_shard[t]);
                results.lock().unwrap()[t].push(res);
            }
        }));
    }
    let (ctl, handles) = Ctl::spawn(bodies);
    let mut trace: Vec<(usize, &'static str)> = vec![];
    let mut sweeps: Vec<SweepNote> = vec![];
    let mut problem: Option<String> = None;
    let mut last_granted: Vec<&'static str> = vec![""; n];
    let mut inflight: Option<usize> = None;
    let shard_of = |k: &Key| k.get_hash() as usize & mask;

    'outer: loop {
        if !ctl.wait_quiet(inflight, STUCK) {
            problem = Some("a thread neither reached a yield point nor finished within 20 s (blocked for good?)".into());
            break;
        }
        let status = ctl.status();
        let done: Vec<usize> = results.lock().unwrap().iter().map(|v| v.len()).collect();
        if status.iter().all(|s| *s == Stat::Finished) {
            break;
        }
        // who holds what
        let mut held: Vec<Option<Held>> = vec![None; n];
        for t in 0..n {
            if let Stat::Parked(id) = status[t] {
                let c = &progs[t][done[t].min(progs[t].len() - 1)];
                held[t] = match id {
                    "reg.goc.op" => Some(Held { kind: c.kind, shard: shard_of(&c.key), write: last_granted[t] == "reg.goc.write" }),
                    "reg.visit.cb" => Some(Held { kind: c.kind, shard: park_shard[t].load(Ordering::SeqCst), write: false }),
                    "reg.retain.cb" => Some(Held { kind: c.kind, shard: park_shard[t].load(Ordering::SeqCst), write: true }),
                    _ => None,
                };
            }
        }
        let sweep_conflict = |t: usize, c: &LCallR| -> bool {
            held.iter().enumerate().any(|(u, h)| {
                u != t
                    && match (h, &c.op) {
                        (Some(_), LOp::Clear) => true,
                        (Some(h), LOp::Retain { .. }) => h.kind == c.kind,
                        (Some(h), LOp::Visit { .. }) => h.kind == c.kind && h.write,
                        _ => false,
                    }
            })
        };
        if let Some(s) = inflight {
            // the sweep in flight: a token for it after every step of a holder
            let c = &progs[s][done[s].min(progs[s].len() - 1)];
            let finished_call = !matches!(status[s], Stat::Running);
            if finished_call || !sweep_conflict(s, c) {
                if !ctl.wait_quiet(None, STUCK) {
                    problem = Some("a sweep did not finish although no lock it needs is held".into());
                    break;
                }
                inflight = None;
                continue;
            }
        }
        let multi_holder = status.iter().any(|s| matches!(s, Stat::Parked("reg.visit.cb") | Stat::Parked("reg.retain.cb")));
        let any_holder = held.iter().any(|h| h.is_some());
        let mut cands: Vec<(usize, usize)> = vec![]; // (thread, weight)
        for t in 0..n {
            let id = match status[t] {
                Stat::Parked(id) => id,
                _ => continue,
            };
            let c = progs[t].get(done[t]);
            let conflicts = |write: bool| -> bool {
                let c = c.unwrap();
                held.iter().enumerate().any(|(u, h)| u != t && h.map_or(false, |h| h.kind == c.kind && h.shard == shard_of(&c.key) && (write || h.write)))
            };
            let w = match id {
                "reg.goc.op" | "reg.visit.cb" | "reg.retain.cb" => {
                    if inflight.is_some() {
                        4
                    } else {
                        1
                    }
                }
                _ if inflight.is_some() => 0,
                "start" => 4,
                "reg.goc.read" | "reg.get" => {
                    if multi_holder || conflicts(false) {
                        0
                    } else {
                        4
                    }
                }
                "reg.goc.write" | "reg.delete" => {
                    if multi_holder || conflicts(true) {
                        0
                    } else {
                        4
                    }
                }
                "reg.sweep" => {
                    let c = c.unwrap();
                    let hold = matches!(c.op, LOp::Visit { hold: true } | LOp::Retain { hold: true, .. });
                    if hold && sweep_conflict(t, c) {
                        0
                    } else if any_holder {
                        8
                    } else {
                        1
                    }
                }
                _ => 0,
            };
            if w > 0 {
                cands.push((t, w));
            }
        }
        if cands.is_empty() {
            problem = Some(format!("no thread can move: {:?}", status));
            break;
        }
        let ws: Vec<usize> = cands.iter().map(|c| c.1).collect();
        let t = cands[r.weighted(&ws)].0;
        let id = match status[t] {
            Stat::Parked(id) => id,
            _ => unreachable!(),
        };
        trace.push((t, id));
        last_granted[t] = id;
        if id == "reg.sweep" {
            let c = &progs[t][done[t]];
            let contended = sweep_conflict(t, c);
            sweeps.push(SweepNote { thread: t, call: done[t], created_before: ctr.load(Ordering::SeqCst), contended });
            if matches!(c.op, LOp::Visit { hold: true } | LOp::Retain { hold: true, .. }) {
                // the callback parks in the last non-empty shard of the kind (nothing it conflicts with is held)
                let mut mx = usize::MAX;
                let mut f = |k: &Key, _: &H| {
                    let s = shard_of(k);
                    if mx == usize::MAX || s > mx {
                        mx = s;
                    }
                };
                match c.kind {
                    0 => reg.visit_counters(&mut f),
                    1 => reg.visit_gauges(&mut f),
                    _ => reg.visit_histograms(&mut f),
                }
                park_shard[t].store(mx, Ordering::SeqCst);
            }
            if contended {
                ctl.grant(t);
                if !ctl.wait_taken(STUCK) {
                    problem = Some("grant not taken".into());
                    break 'outer;
                }
                inflight = Some(t);
                // give it time to reach the held shard
                let t0 = std::time::Instant::now();
                while t0.elapsed() < GRACE {
                    if !matches!(ctl.status()[t], Stat::Running) {
                        break;
                    }
                    std::thread::sleep(std::time::Duration::from_micros(200));
                }
                continue;
            }
        }
        ctl.grant(t);
        if !ctl.wait_taken(STUCK) {
            problem = Some("grant not taken".into());
            break;
        }
        if let Some(s) = inflight {
            // wait for the holder's step, then the token of the sweep
            if !ctl.wait_quiet(Some(s), STUCK) {
                problem = Some("a lock holder did not come back".into());
                break;
            }
            trace.push((s, "reg.sweep"));
        }
    }
    if problem.is_some() {
        ctl.release_all();
        let t0 = std::time::Instant::now();
        for h in handles {
            while !h.is_finished() && t0.elapsed() < std::time::Duration::from_millis(1500) {
                std::thread::sleep(std::time::Duration::from_millis(5));
            }
            if h.is_finished() {
                let _ = h.join();
            }
        }
    } else {
        for (t, h) in handles.into_iter().enumerate() {
            if let Ok(false) | Err(_) = h.join() {
                problem = Some(format!("thread {} panicked", t));
            }
        }
    }
    Ctl::done();
    let cls_of = |k: &Key| {
        let c = canon_key(k);
        classes.iter().find(|(x, _)| *x == c).map(|(_, i)| *i).unwrap_or(usize::MAX)
    };
    let mut listing: [Vec<(usize, Got)>; 3] = [vec![], vec![], vec![]];
    if problem.is_none() {
        reg.visit_counters(|k, h| listing[0].push((cls_of(k), got_of(h))));
        reg.visit_gauges(|k, h| listing[1].push((cls_of(k), got_of(h))));
        reg.visit_histograms(|k, h| listing[2].push((cls_of(k), got_of(h))));
    }
    let created = ctr.load(Ordering::SeqCst);
    let res = results.lock().unwrap().clone();
    let k = keep.lock().unwrap().clone();
    LOutcome { pre_results, results: res, listing, created, mask, trace, sweeps, problem, _keep: k }
}

fn l_one(out: &mut Out, pre: &[BCall], progs: &[Vec<LCallR>], classes: &[(String, usize)], r: &mut Rng) {
    let o = l_execute(pre, progs, classes, r);
    let taken: Vec<usize> = o.trace.iter().map(|(t, _)| *t).collect();
    let op = format!("registry lrun {} {} {} {}", o.mask + 1, prog_tok(pre), list(progs.iter().map(|p| lprog_tok(p))), sched::sched_tok(&taken));
    let labels: Vec<&str> = o.trace.iter().map(|(_, id)| *id).collect();
    let res = list(o.results.iter().map(|r| if r.is_empty() { ".".to_string() } else { r.iter().map(lres_tok).collect::<Vec<_>>().join("+") }));
    let fin: Vec<String> = o
        .listing
        .iter()
        .map(|l| {
            let mut v: Vec<(usize, usize)> = l.iter().map(|(c, g)| (*c, g.id)).collect();
            pairs_tok(&mut v)
        })
        .collect();
    let pcs = list(progs.iter().map(|_| "done".to_string()));
    out.op(&op, &format!("{} | {} | {} | created={} | {}", labels.join("."), res, fin.join(" "), o.created, pcs));
    if let Some(p) = &o.problem {
        out.oracle_fail("registry sweep race: a thread got stuck or panicked", p);
        return;
    }
    // oracles that need no model and no assumption on timing
    for (kd, l) in o.listing.iter().enumerate() {
        let mut cs: Vec<usize> = l.iter().map(|(c, _)| *c).collect();
        cs.sort();
        let nb = cs.len();
        cs.dedup();
        if cs.len() != nb {
            out.oracle_fail("two live entries for one (kind, key) after a sweep race", &format!("kind {}", kd));
        }
    }
    for sw in &o.sweeps {
        let c = &progs[sw.thread][sw.call];
        match &c.op {
            LOp::Clear => {
                // every storage made before clear() was called sat in some shard when clear took that shard's
                // lock (or had been deleted): none of them may be registered once clear has returned
                for (kd, l) in o.listing.iter().enumerate() {
                    for (cls, g) in l {
                        if g.id < sw.created_before {
                            out.oracle_fail(
                                "clear() returned but a metric that was registered before the call is still registered (clear must remove every entry that was present)",
                                &format!(
                                    "kind {} class {} storage id {} (made before the clear; {} storages existed then); clear ran while another thread was inside a callback under a shard lock: {}",
                                    kd, cls, g.id, sw.created_before, sw.contended
                                ),
                            );
                        }
                    }
                }
                out.count(if sw.contended { "sweep.clear.contended" } else { "sweep.clear.free" });
            }
            LOp::Retain { keep, .. } => {
                for (cls, g) in &o.listing[c.kind as usize] {
                    if g.id < sw.created_before && !keep.contains(cls) {
                        out.oracle_fail(
                            "retain_* returned but an entry its predicate rejects (registered before the call) is still registered",
                            &format!("kind {} class {} storage id {} contended {}", c.kind, cls, g.id, sw.contended),
                        );
                    }
                }
                if let LResR::Listing(seen) = &o.results[sw.thread][sw.call] {
                    let mut cs: Vec<usize> = seen.iter().map(|(c, _)| *c).collect();
                    cs.sort();
                    let nb = cs.len();
                    cs.dedup();
                    if cs.len() != nb {
                        out.oracle_fail("retain_* showed its predicate one key twice", &format!("kind {}", c.kind));
                    }
                }
                out.count(if sw.contended { "sweep.retain.contended" } else { "sweep.retain.free" });
            }
            LOp::Visit { .. } => {
                if let LResR::Listing(seen) = &o.results[sw.thread][sw.call] {
                    let mut cs: Vec<usize> = seen.iter().map(|(c, _)| *c).collect();
                    cs.sort();
                    let nb = cs.len();
                    cs.dedup();
                    if cs.len() != nb {
                        out.oracle_fail("visit_* reported one key twice", &format!("kind {}", c.kind));
                    }
                    if seen.iter().any(|(_, g)| g.kind != Some(c.kind)) {
                        out.oracle_fail("visit_* reported a storage of another kind", &format!("kind {}", c.kind));
                    }
                }
                out.count(if sw.contended { "sweep.visit.contended" } else { "sweep.visit.free" });
            }
            _ => {}
        }
    }
    if o.sweeps.iter().any(|s| s.contended) {
        out.nontrivial();
        out.count("sweep.waited_for_a_held_lock");
    }
}

fn l_gen(r: &mut Rng, out: &mut Out, mask: usize) -> (Vec<BCall>, Vec<Vec<LCallR>>, Vec<(String, usize)>) {
    let ns = r.range(2, 4);
    let collide = if r.chance(1, 3) { Some(mask) } else { None };
    let pool = key_pool(r, out, ns, collide);
    let classes = cls_table(&pool);
    let kinds: Vec<u8> = if r.chance(1, 2) { vec![r.below(3) as u8] } else { vec![r.below(3) as u8, r.below(3) as u8] };
    let ncls = classes.len();
    for (_, k) in &pool {
        let _ = k.get_hash();
    }
    let pick = |r: &mut Rng| {
        let (cls, key) = r.pick(&pool).clone();
        (cls, key, *r.pick(&kinds))
    };
    let pre: Vec<BCall> = (0..r.range(1, 5))
        .map(|_| {
            let (cls, key, kind) = pick(r);
            BCall { op: OpK::Goc, kind, cls, key }
        })
        .collect();
    let dummy = pool[0].1.clone();
    let sweep = |r: &mut Rng, hold_ok: bool| -> LCallR {
        let kind = *r.pick(&kinds);
        let hold = hold_ok && r.chance(1, 2);
        let op = match r.weighted(&[5, 3, 2]) {
            0 if !hold => LOp::Clear,
            1 => LOp::Retain { keep: (0..ncls).filter(|_| r.chance(1, 3)).collect(), hold },
            _ => LOp::Visit { hold },
        };
        LCallR { op, kind, cls: 0, key: dummy.clone() }
    };
    let simple = |r: &mut Rng| -> LCallR {
        let (cls, key, kind) = pick(r);
        let op = match r.weighted(&[70, 15, 15]) {
            0 => LOp::Goc,
            1 => LOp::Del,
            _ => LOp::Get,
        };
        LCallR { op, kind, cls, key }
    };
    let n = r.range(2, 4);
    let mut progs: Vec<Vec<LCallR>> = vec![];
    // thread 0: a sweep that does not park (clear mostly); thread 1: something that holds a lock; the rest: anything
    for t in 0..n {
        let len = r.range(1, 2);
        let mut p = vec![];
        for j in 0..len {
            let c = match (t, j) {
                (0, 0) => {
                    if r.chance(3, 5) {
                        LCallR { op: LOp::Clear, kind: 0, cls: 0, key: dummy.clone() }
                    } else {
                        sweep(r, false)
                    }
                }
                (1, 0) => {
                    if r.chance(3, 5) {
                        let mut c = simple(r);
                        c.op = LOp::Goc;
                        c
                    } else {
                        let mut c = sweep(r, true);
                        match &mut c.op {
                            LOp::Visit { hold } | LOp::Retain { hold, .. } => *hold = true,
                            _ => {}
                        }
                        c
                    }
                }
                _ => {
                    if r.chance(1, 4) {
                        sweep(r, true)
                    } else {
                        simple(r)
                    }
                }
            };
            p.push(c);
        }
        progs.push(p);
    }
    out.count(&format!("sweep.threads={}", n));
    (pre, progs, classes)
}

fn real_mask() -> usize {
    let reg: BReg = Registry::new(CountingStorage::<Key> { next: Arc::new(AtomicUsize::new(0)), classify: canon_key });
    let dbg = format!("{:?}", reg);
    dbg.rsplit("shard_mask: ")
        .next()
        .and_then(|s| s.split(|c: char| !c.is_ascii_digit()).next())
        .and_then(|s| s.parse::<usize>().ok())
        .expect("shard_mask")
}

pub fn run(cfg: &Cfg, out: &mut Out) {
    let root = Rng::new(cfg.seed);
    {
        let mut r = root.fork(9_000_001);
        lazy_clone_cases(out, &mut r, cfg.thorough);
    }
    let (fk, fclasses) = fixed_keys();
    let call = |op: OpK, kind: u8, i: usize| BCall { op, kind, cls: fk[i].0, key: fk[i].1.clone() };

    // corpus: the classic shapes
    {
        // two creators of equal, differently built keys interleaved section by section, then a deleter
        let progs = vec![vec![call(OpK::Goc, 0, 0)], vec![call(OpK::Goc, 0, 1)], vec![call(OpK::Del, 0, 2), call(OpK::Goc, 0, 2)]];
        for sch in [vec![0, 1, 0, 1, 0, 1, 2, 2, 2, 2], vec![0, 1, 2, 0, 1, 2, 0, 1, 2, 2, 2], vec![2, 2, 0, 0, 1, 1, 2, 0, 1, 2]] {
            out.case("corpus race");
            b_one(out, &[], &progs, &fclasses, &sch);
        }
        // the same race on the histogram and gauge copies of get_or_create_*
        for kd in [2u8, 1] {
            let progs = vec![vec![call(OpK::Goc, kd, 0)], vec![call(OpK::Goc, kd, 1)], vec![call(OpK::Del, kd, 2), call(OpK::Goc, kd, 2)]];
            for sch in [vec![0, 1, 0, 1, 0, 1, 2, 2, 2, 2], vec![0, 1, 2, 0, 1, 2, 0, 1, 2, 2, 2]] {
                out.case("corpus race other kinds");
                b_one(out, &[], &progs, &fclasses, &sch);
            }
        }
        // same key in two kinds, and a second class
        let pre = vec![call(OpK::Goc, 0, 0)];
        let progs = vec![vec![call(OpK::Del, 0, 1), call(OpK::Goc, 1, 1)], vec![call(OpK::Goc, 0, 2), call(OpK::Get, 0, 0)], vec![call(OpK::Goc, 0, 3)]];
        out.case("corpus race kinds");
        b_one(out, &pre, &progs, &fclasses, &[1, 0, 1, 0, 2, 1, 0, 2, 1, 0, 2, 1, 0]);
    }

    // corpus for the sweeps: a recorder inside `op` (read lock after a hit / write lock after creating), an
    // exporter's visitor and a retain predicate parked under the shard lock while clear() / retain / visit run
    {
        let lc = |op: LOp, kind: u8, i: usize| LCallR { op, kind, cls: fk[i].0, key: fk[i].1.clone() };
        let shapes: Vec<(Vec<BCall>, Vec<Vec<LCallR>>)> = vec![
            (vec![call(OpK::Goc, 0, 0), call(OpK::Goc, 0, 3)], vec![vec![lc(LOp::Clear, 0, 0)], vec![lc(LOp::Goc, 0, 1)]]),
            (vec![call(OpK::Goc, 0, 3)], vec![vec![lc(LOp::Clear, 0, 0)], vec![lc(LOp::Goc, 0, 2)]]),
            (vec![call(OpK::Goc, 1, 0), call(OpK::Goc, 1, 3)], vec![vec![lc(LOp::Clear, 0, 0)], vec![lc(LOp::Visit { hold: true }, 1, 0)]]),
            (vec![call(OpK::Goc, 2, 0), call(OpK::Goc, 2, 3)], vec![vec![lc(LOp::Clear, 0, 0)], vec![lc(LOp::Retain { keep: vec![0, 1], hold: true }, 2, 0)]]),
            (vec![call(OpK::Goc, 0, 0), call(OpK::Goc, 0, 3)], vec![vec![lc(LOp::Retain { keep: vec![], hold: false }, 0, 0)], vec![lc(LOp::Goc, 0, 1)], vec![lc(LOp::Goc, 0, 3)]]),
            (vec![call(OpK::Goc, 2, 3)], vec![vec![lc(LOp::Visit { hold: false }, 2, 0)], vec![lc(LOp::Goc, 2, 0)]]),
        ];
        for (i, (pre, progs)) in shapes.iter().enumerate() {
            for j in 0..3u64 {
                out.case(&format!("corpus sweep {} {}", i, j));
                let mut r = Rng::new(0xC06 + 16 * i as u64 + j);
                l_one(out, pre, progs, &fclasses, &mut r);
            }
        }
    }

    // stream T: third-party key type with its own hasher (default `Hashable::hashable()`)
    {
        out.case("sipkey witness");
        sip_key_witness(out);
        aliasing_slices_case(out);
        {
            let mut r = root.fork(9_000_777);
            churn_case(out, &mut r, cfg.thorough);
        }
        let n_t = (cfg.cases / 12).max(8);
        for i in 0..n_t {
            let mut r = root.fork(3_000_000 + i as u64);
            out.case(&format!("twohash seed={} i={}", cfg.seed, i));
            two_hash_case(out, &mut r);
        }
    }

    let n_c = cfg.cases / 5;
    let n_b = cfg.cases / 4;
    let n_a = cfg.cases - n_b - n_c;
    for i in 0..n_a {
        let mut r = root.fork(i as u64);
        let variant = match r.weighted(&[5, 3, 2, 3]) {
            0 => 0,
            1 => 1,
            2 => 2,
            _ => 3,
        };
        out.case(&format!("seq seed={} i={} variant={}", cfg.seed, i, variant));
        stream_a_case(out, &mut r, variant);
    }
    for i in 0..n_b {
        let mut r = root.fork(1_000_000 + i as u64);
        out.case(&format!("race seed={} i={}", cfg.seed, i));
        let (pre, progs, classes) = b_gen(&mut r, out);
        let mut sch = vec![];
        let mut cur = r.below(progs.len());
        for _ in 0..60 {
            if r.chance(1, 2) {
                cur = r.below(progs.len());
            }
            sch.push(cur);
        }
        b_one(out, &pre, &progs, &classes, &sch);
    }

    let mask = real_mask();
    {
        // the registry's own account of its layout: shards per kind (Debug output) vs shard_mask
        out.case("shard layout");
        let reg: BReg = Registry::new(CountingStorage::<Key> { next: Arc::new(AtomicUsize::new(0)), classify: canon_key });
        let dbg = format!("{:?}", reg);
        let section = |from: &str, to: &str| -> usize {
            let a = dbg.find(from).map(|i| i + from.len()).unwrap_or(0);
            let b = dbg[a..].find(to).map(|i| a + i).unwrap_or(dbg.len());
            dbg[a..b].matches("RwLock").count()
        };
        let counts = [section("counters: [", "gauges: ["), section("gauges: [", "histograms: ["), section("histograms: [", "shard_mask:")];
        out.count(&format!("layout.shards={}", counts[0]));
        if counts.iter().any(|c| *c != mask + 1) || !(mask + 1).is_power_of_two() {
            out.oracle_fail(
                "shard vectors and shard_mask do not fit (hash & shard_mask must index every shard and nothing else)",
                &format!("shards per kind {:?}, shard_mask {}", counts, mask),
            );
        }
        out.op(&format!("registry new {}", mask + 1), "ok");
    }
    for i in 0..n_c {
        let mut r = root.fork(2_000_000 + i as u64);
        out.case(&format!("sweep seed={} i={}", cfg.seed, i));
        let (pre, progs, classes) = l_gen(&mut r, out, mask);
        l_one(out, &pre, &progs, &classes, &mut r);
    }

    if cfg.thorough {
        // exhaustive: ALL schedules of small configurations, each replayed on the model
        let configs: Vec<(Vec<BCall>, Vec<Vec<BCall>>)> = vec![
            (vec![], vec![vec![call(OpK::Goc, 0, 0)], vec![call(OpK::Goc, 0, 1)], vec![call(OpK::Del, 0, 2)]]),
            (vec![call(OpK::Goc, 0, 0)], vec![vec![call(OpK::Del, 0, 1), call(OpK::Goc, 0, 2)], vec![call(OpK::Goc, 0, 0), call(OpK::Goc, 1, 0)]]),
            (vec![], vec![vec![call(OpK::Goc, 0, 0)], vec![call(OpK::Goc, 0, 1)], vec![call(OpK::Goc, 0, 2), call(OpK::Get, 0, 3)]]),
            // the histogram and gauge copies of the read section / write section with re-check
            (vec![], vec![vec![call(OpK::Goc, 2, 0)], vec![call(OpK::Goc, 2, 1)], vec![call(OpK::Del, 2, 2)]]),
            (vec![], vec![vec![call(OpK::Goc, 1, 0)], vec![call(OpK::Goc, 1, 1), call(OpK::Goc, 2, 1)]]),
        ];
        for (pre, progs) in configs {
            let name = format!("{} {}", prog_tok(&pre), list(progs.iter().map(|p| prog_tok(p))));
            out.case(&format!("exhaustive {}", name));
            let mut prefix: Vec<usize> = vec![];
            let mut runs = 0usize;
            let mut exhausted = false;
            loop {
                let o = b_execute(&pre, &progs, &fclasses, &prefix);
                runs += 1;
                let taken: Vec<usize> = o.run.trace.iter().map(|(t, _)| *t).collect();
                let choices = o.run.choices.clone();
                out.op(&b_op_line(&o, &pre, &progs), &b_answer(&o));
                b_oracle(out, &pre, &progs, &o);
                if runs >= 20000 {
                    break;
                }
                let mut i = taken.len();
                let mut next = None;
                while i > 0 {
                    i -= 1;
                    if let Some(alt) = choices[i].iter().copied().filter(|c| *c > taken[i]).min() {
                        next = Some((i, alt));
                        break;
                    }
                }
                match next {
                    None => {
                        exhausted = true;
                        break;
                    }
                    Some((i, alt)) => {
                        prefix = taken[..i].to_vec();
                        prefix.push(alt);
                    }
                }
            }
            out.count_n("exhaustive.runs", runs as u64);
            out.count(&format!("exhaustive.complete={}", exhausted));
            out.nontrivial();
        }
    }
}
