//! C04 — counter, gauge and histogram handles apply every update exactly once.
//!
//! Real `Counter` / `Gauge` / `Histogram` handles (`from_arc`, `From<Arc<T>>`, clones, `Arc<Arc<…>>` wrappers,
//! `noop()`) over the real `impl CounterFn/GaugeFn for AtomicU64` and over logging `HistogramFn` doubles.
//!
//!  (A) sequential differential streams: the cell is read after every call and the whole value trace is compared
//!      with the Lean step machine (`atomics trace|cls …`, one model thread per handle, schedule = call order);
//!      delivered histogram logs are compared run-length encoded (`atomics hist …`), `IntoF64` conversions one by
//!      one (`atomics conv …`).
//!  (B) concurrent: 2–4 real threads hammer clones of one handle at the same time (spin barrier, no scheduler:
//!      std atomics have no yield points) with COMMUTING exact values; the order-independent result is compared
//!      with the model run on a round-robin schedule and with an own tally.
//!
//!  (A', round 2) IEEE gauge sessions (`atomics itrace`): inc/dec/set with ANY operand (non-dyadic, subnormal, ±0.0,
//!      operands chosen relative to the current value so that sums round) compared bit for bit with the model's
//!      IEEE-754 addition; `GaugeValue::update_value` (`atomics upd`) and `__into_f64` (`atomics dconv`).
//!  (B', round 2) absolutes RACING increments (`conc_counter_race`), and in every concurrent counter run with
//!      absolutes each thread reads the cell after each of its calls (never decreasing; ≥ v right after
//!      `absolute(v)`): oracles that hold in every interleaving, so a check-then-act `absolute` is caught by a
//!      concrete failing run. Raced programs are re-run sequentially on the real code and compared with the model.
//!
//!  (C, round 4) races under the deterministic scheduler (`sched_case`): yield points before every call and inside
//!      `fetch_update`'s closure (hook-C04), schedule fed to the Lean CAS-loop machine (`atomics ctrace`), per-step
//!      native oracles; every schedule of small configurations; an OS-thread set-vs-increment race over NaN / ±0.0 /
//!      ±∞ cells (`conc_gauge_set_vs_inc`); rustc type probes (`type_probes`).
//!
//! Oracles (independent of the model): own u128/i128 tallies of sums, maxima, last set, delivery counts;
//! every call runs under `catch_unwind` (a panic is an oracle failure).

use crate::util::*;
use metrics::atomics::AtomicU64;
use metrics::{Counter, Gauge, GaugeValue, Histogram, HistogramFn};
use std::panic::{catch_unwind, AssertUnwindSafe};
use std::sync::atomic::{AtomicBool, AtomicUsize, Ordering};
use std::sync::{Arc, Mutex};
use std::time::Duration;

// ---------------------------------------------------------------------------------------------
// arguments by Rust type (every `impl IntoF64`)

#[derive(Clone, Copy, Debug)]
enum Arg {
    F64(f64),
    F32(f32),
    I8(i8),
    U8(u8),
    I16(i16),
    U16(u16),
    I32(i32),
    U32(u32),
    Dur(Duration),
}

macro_rules! with_arg {
    ($a:expr, $x:ident => $e:expr) => {
        match $a {
            Arg::F64($x) => $e,
            Arg::F32($x) => $e,
            Arg::I8($x) => $e,
            Arg::U8($x) => $e,
            Arg::I16($x) => $e,
            Arg::U16($x) => $e,
            Arg::I32($x) => $e,
            Arg::U32($x) => $e,
            Arg::Dur($x) => $e,
        }
    };
}

impl Arg {
    fn tok(&self) -> String {
        match self {
            Arg::F64(x) => format!("f64:{:016x}", x.to_bits()),
            Arg::F32(x) => format!("f32:{:08x}", x.to_bits()),
            Arg::I8(x) => format!("i8:{}", x),
            Arg::U8(x) => format!("u8:{}", x),
            Arg::I16(x) => format!("i16:{}", x),
            Arg::U16(x) => format!("u16:{}", x),
            Arg::I32(x) => format!("i32:{}", x),
            Arg::U32(x) => format!("u32:{}", x),
            Arg::Dur(d) => format!("dur:{}:{}", d.as_secs(), d.subsec_nanos()),
        }
    }
    /// the documented conversion, computed here without the crate's trait
    fn expected(&self) -> f64 {
        match *self {
            Arg::F64(x) => x,
            Arg::F32(x) => x as f64,
            Arg::I8(x) => x as f64,
            Arg::U8(x) => x as f64,
            Arg::I16(x) => x as f64,
            Arg::U16(x) => x as f64,
            Arg::I32(x) => x as f64,
            Arg::U32(x) => x as f64,
            Arg::Dur(d) => d.as_secs_f64(),
        }
    }
    /// is the conversion inside the exact domain of the model (everything but most `Duration`s)
    fn model_exact(&self) -> bool {
        match self {
            Arg::Dur(d) => (d.subsec_nanos() as u64 * 1024) % 1_000_000_000 == 0 && d.as_secs() < (1u64 << 43),
            _ => true,
        }
    }
}

/// is `x` an exact multiple of 2^-10 with |x·1024| ≤ 2^45 (and not -0.0): arithmetic on such values is exact
fn is_dy(x: f64) -> bool {
    if !x.is_finite() || (x == 0.0 && x.is_sign_negative()) {
        return false;
    }
    let y = x * 1024.0;
    y.is_finite() && y.fract() == 0.0 && y.abs() <= (1u64 << 45) as f64
}

fn cls(x: f64) -> &'static str {
    if x.is_nan() {
        "nan"
    } else if x == f64::INFINITY {
        "+inf"
    } else if x == f64::NEG_INFINITY {
        "-inf"
    } else {
        "fin"
    }
}

fn dy(k: i64) -> f64 {
    k as f64 / 1024.0
}

/// an exactly representable argument of a random type
fn exact_arg(r: &mut Rng) -> Arg {
    match r.below(12) {
        0 => Arg::I8(*r.pick(&[i8::MIN, -1, 0, 1, 77, i8::MAX])),
        1 => Arg::U8(*r.pick(&[0, 1, 200, u8::MAX])),
        2 => Arg::I16(*r.pick(&[i16::MIN, -300, 0, 1, i16::MAX])),
        3 => Arg::U16(*r.pick(&[0, 1, 40000, u16::MAX])),
        4 => Arg::I32(*r.pick(&[i32::MIN, -70000, 0, 1, i32::MAX])),
        5 => Arg::U32(*r.pick(&[0, 1, 3_000_000_000, u32::MAX])),
        6 => Arg::F32(*r.pick(&[0.0f32, 0.5, -3.25, 1024.0, 16777216.0, -0.125])),
        7 => Arg::Dur(Duration::new(r.below(100000) as u64, (r.below(512) as u32) * 1_953_125)),
        _ => {
            let mag = *r.pick(&[4u32, 11, 20, 30, 40]);
            let k = (r.next() % (1u64 << mag)) as i64;
            Arg::F64(dy(if r.chance(1, 2) { -k } else { k }))
        }
    }
}

const SPECIAL_BITS: &[u64] = &[
    0x0000_0000_0000_0000, // 0.0
    0x8000_0000_0000_0000, // -0.0
    0x0000_0000_0000_0001, // smallest subnormal
    0x000f_ffff_ffff_ffff, // largest subnormal
    0x0010_0000_0000_0000, // MIN_POSITIVE
    0x7fef_ffff_ffff_ffff, // MAX
    0xffef_ffff_ffff_ffff, // MIN
    0x7ff0_0000_0000_0000, // +inf
    0xfff0_0000_0000_0000, // -inf
    0x7ff8_0000_0000_0000, // NaN
    0xfff8_0000_0000_0000, // -NaN
    0x7ff8_0000_0000_0123, // NaN with payload
    0x3fb9_9999_9999_999a, // 0.1
    0x7e37_e43c_8800_759c, // 1e300
    0x4340_0000_0000_0000, // 2^53
    0x433f_ffff_ffff_ffff, // 2^53 - 1
    0x3f50_0000_0000_0000, // 2^-10
    0x3f40_0000_0000_0000, // 2^-11
];

fn special_f64(r: &mut Rng) -> f64 {
    if r.chance(1, 5) {
        let mut b = r.next();
        if (b >> 52) & 0x7ff == 0x7ff && b & ((1u64 << 52) - 1) != 0 {
            b |= 1u64 << 51; // keep NaNs quiet: signalling NaNs may be quieted when passed around
        }
        f64::from_bits(b)
    } else {
        f64::from_bits(*r.pick(SPECIAL_BITS))
    }
}

fn u64_class(r: &mut Rng) -> u64 {
    match r.below(9) {
        0 => 0,
        1 => 1,
        2 => u64::MAX,
        3 => u64::MAX - r.below(5) as u64,
        4 => 1u64 << 63,
        5 => (1u64 << 63) + r.below(3) as u64,
        6 => 1u64 << 32,
        7 => r.below(1000) as u64,
        _ => r.next(),
    }
}

/// oracle failures of the current case, reported once its op line is written (so the replay carries the ops)
#[derive(Default)]
struct Pending(Vec<(String, String)>);
impl Pending {
    fn fail(&mut self, what: &str, detail: &str) {
        self.0.push((what.to_string(), detail.to_string()));
    }
    fn flush(self, out: &mut Out) {
        for (w, d) in self.0 {
            out.oracle_fail(&w, &d);
        }
    }
}

fn guarded<Fun: FnOnce()>(pend: &mut Pending, what: &str, f: Fun) {
    if catch_unwind(AssertUnwindSafe(f)).is_err() {
        pend.fail("a handle operation panicked", what);
    }
}

fn sched_tok(s: &[usize]) -> String {
    if s.is_empty() {
        "-".into()
    } else {
        s.iter().map(|t| t.to_string()).collect::<Vec<_>>().join(".")
    }
}

fn progs_tok(p: &[Vec<String>]) -> String {
    list(p.iter().map(|calls| if calls.is_empty() { "-".to_string() } else { calls.join("+") }))
}

// ---------------------------------------------------------------------------------------------
// (A1) sequential counters

#[derive(Clone, Copy, Debug)]
enum COp {
    Inc(u64),
    Abs(u64),
}

/// `handles[i]` = None: a no-op handle
fn counter_handles(arc: &Arc<AtomicU64>, n_live: usize, with_noop: bool) -> Vec<(Counter, bool)> {
    let mut hs: Vec<(Counter, bool)> = vec![];
    for i in 0..n_live {
        let h = match i % 4 {
            0 => Counter::from_arc(arc.clone()),
            1 => hs[0].0.clone(),
            2 => Counter::from(arc.clone()),
            _ => Counter::from_arc(Arc::new(arc.clone())), // Arc<Arc<AtomicU64>>: `impl CounterFn for Arc<T>`
        };
        hs.push((h, true));
    }
    if with_noop {
        hs.push((Counter::noop(), false));
    }
    hs
}

fn seq_counter(out: &mut Out, c0: u64, n_live: usize, with_noop: bool, ops: &[(usize, COp)]) {
    let mut pend = Pending::default();
    let arc = Arc::new(AtomicU64::new(c0));
    let hs = counter_handles(&arc, n_live, with_noop);
    let mut progs: Vec<Vec<String>> = vec![vec![]; hs.len()];
    let mut sched = vec![];
    let mut trace = vec![];
    let (mut wrapped, mut n_eff, mut inc_only) = (false, 0u64, true);
    let mut tally: u128 = c0 as u128;
    let mut max_abs: Option<u64> = None;
    for (h, op) in ops {
        let (handle, live) = &hs[*h];
        let before = arc.load(Ordering::SeqCst);
        let tok = match op {
            COp::Inc(v) => format!("{}i{}", if *live { "L" } else { "N" }, v),
            COp::Abs(v) => format!("{}a{}", if *live { "L" } else { "N" }, v),
        };
        guarded(&mut pend, &tok, || match op {
            COp::Inc(v) => handle.increment(*v),
            COp::Abs(v) => handle.absolute(*v),
        });
        let after = arc.load(Ordering::SeqCst);
        progs[*h].push(tok.clone());
        sched.push(*h);
        trace.push(format!("{:016x}", after));
        if !*live {
            if after != before {
                pend.fail("a call through a no-op counter handle changed the storage", &tok);
            }
            continue;
        }
        n_eff += 1;
        match op {
            COp::Inc(v) => {
                tally += *v as u128;
                if before.checked_add(*v).is_none() {
                    wrapped = true;
                }
                if after != before.wrapping_add(*v) {
                    pend.fail(
                        "counter increment not applied exactly once to the current value",
                        &format!("before {} +{} after {}", before, v, after),
                    );
                }
            }
            COp::Abs(v) => {
                inc_only = false;
                max_abs = Some(max_abs.map_or(*v, |m| m.max(*v)));
                if after < before || after < *v {
                    pend.fail(
                        "counter absolute lowered the counter or left it below the value given",
                        &format!("before {} abs {} after {}", before, v, after),
                    );
                }
            }
        }
    }
    let fin = arc.load(Ordering::SeqCst);
    if inc_only && fin as u128 != tally % (1u128 << 64) {
        pend.fail("counter is not the sum of its increments mod 2^64", &format!("expected {} got {}", tally % (1u128 << 64), fin));
    }
    if !wrapped {
        if fin < c0 || max_abs.map_or(false, |m| fin < m) {
            pend.fail("counter ended below its start or below the largest absolute value (no wrap)", &format!("{}", fin));
        }
    }
    out.op(
        &format!("atomics trace {:x} {} {}", c0, progs_tok(&progs), sched_tok(&sched)),
        &format!("t={} w={} n={}", if trace.is_empty() { "-".to_string() } else { trace.join(".") }, wrapped as u8, n_eff),
    );
    if wrapped {
        out.count("counter.wrapped");
    }
    if n_live >= 2 && n_eff >= 3 {
        out.nontrivial();
    }
    pend.flush(out);
}

fn gen_seq_counter(r: &mut Rng, out: &mut Out) {
    let c0 = if r.chance(1, 2) { 0 } else { u64_class(r) };
    let n_live = r.range(1, 4);
    let with_noop = r.chance(1, 3);
    let nh = n_live + with_noop as usize;
    let inc_only = r.chance(1, 3);
    let n = r.range(1, 24);
    let ops: Vec<(usize, COp)> = (0..n)
        .map(|_| {
            let v = u64_class(r);
            (r.below(nh), if inc_only || r.chance(3, 5) { COp::Inc(v) } else { COp::Abs(v) })
        })
        .collect();
    out.count(if inc_only { "seq.counter.inc_only" } else { "seq.counter.mixed" });
    seq_counter(out, c0, n_live, with_noop, &ops);
}

// ---------------------------------------------------------------------------------------------
// (A2/A3) sequential gauges: exact stream (bit patterns) and class stream (NaN / ∞)

#[derive(Clone, Copy, Debug)]
enum GKind {
    Inc,
    Dec,
    Set,
}

/// how a sequential gauge session is compared with the model
#[derive(Clone, Copy, PartialEq, Debug)]
enum GMode {
    /// `atomics trace`: exact dyadic carrier, bit patterns
    Exact,
    /// `atomics cls`: exact dyadic carrier, classes nan/±inf/fin
    Classes,
    /// `atomics itrace`: bit-level IEEE carrier (any operands, rounding included), NaN cells by class
    Ieee,
}

fn gauge_handles(arc: &Arc<AtomicU64>, n_live: usize, with_noop: bool) -> Vec<(Gauge, bool)> {
    let mut hs: Vec<(Gauge, bool)> = vec![];
    for i in 0..n_live {
        let h = match i % 4 {
            0 => Gauge::from_arc(arc.clone()),
            1 => hs[0].0.clone(),
            2 => Gauge::from(arc.clone()),
            _ => Gauge::from_arc(Arc::new(arc.clone())),
        };
        hs.push((h, true));
    }
    if with_noop {
        hs.push((Gauge::noop(), false));
    }
    hs
}

fn gauge_call(g: &Gauge, k: GKind, a: Arg) {
    match k {
        GKind::Inc => with_arg!(a, x => g.increment(x)),
        GKind::Dec => with_arg!(a, x => g.decrement(x)),
        GKind::Set => with_arg!(a, x => g.set(x)),
    }
}

/// `pick(current value) -> (handle, kind, arg)`; runs `n` calls; `classes`: compare classes instead of bits
fn seq_gauge(
    out: &mut Out,
    c0: f64,
    n_live: usize,
    with_noop: bool,
    n: usize,
    mode: GMode,
    pick: &mut dyn FnMut(f64) -> (usize, GKind, Arg),
) {
    let mut pend = Pending::default();
    let arc = Arc::new(AtomicU64::new(c0.to_bits()));
    let hs = gauge_handles(&arc, n_live, with_noop);
    let mut progs: Vec<Vec<String>> = vec![vec![]; hs.len()];
    let mut sched = vec![];
    let mut trace = vec![];
    let mut n_eff = 0u64;
    for _ in 0..n {
        let before = f64::from_bits(arc.load(Ordering::SeqCst));
        let (h, k, a) = pick(before);
        let (handle, live) = &hs[h];
        let tok = format!(
            "{}g{}={}",
            if *live { "L" } else { "N" },
            match k {
                GKind::Inc => "i",
                GKind::Dec => "d",
                GKind::Set => "s",
            },
            a.tok()
        );
        guarded(&mut pend, &tok, || gauge_call(handle, k, a));
        let after_bits = arc.load(Ordering::SeqCst);
        let after = f64::from_bits(after_bits);
        progs[h].push(tok.clone());
        sched.push(h);
        trace.push(match mode {
            GMode::Classes => cls(after).to_string(),
            GMode::Ieee if after.is_nan() => "nan".to_string(),
            _ => format!("{:016x}", after_bits),
        });
        if !*live {
            if after_bits != before.to_bits() {
                pend.fail("a call through a no-op gauge handle changed the storage", &tok);
            }
            continue;
        }
        n_eff += 1;
        let x = a.expected();
        let want = match k {
            GKind::Inc => before + x,
            GKind::Dec => before - x,
            GKind::Set => x,
        };
        let ok = if want.is_nan() { after.is_nan() } else { after_bits == want.to_bits() };
        if !ok {
            pend.fail(
                match k {
                    GKind::Set => "gauge set did not leave exactly the value given",
                    _ => "gauge increment/decrement not applied exactly once to the current value",
                },
                &format!("before {:016x} {} after {:016x} want {:016x}", before.to_bits(), tok, after_bits, want.to_bits()),
            );
        }
    }
    let t = if trace.is_empty() { "-".to_string() } else { trace.join(".") };
    if mode == GMode::Classes {
        out.op(&format!("atomics cls {:x} {} {}", c0.to_bits(), progs_tok(&progs), sched_tok(&sched)), &format!("t={}", t));
    } else if mode == GMode::Ieee {
        out.op(&format!("atomics itrace {:x} {} {}", c0.to_bits(), progs_tok(&progs), sched_tok(&sched)), &format!("t={} n={}", t, n_eff));
    } else {
        out.op(
            &format!("atomics trace {:x} {} {}", c0.to_bits(), progs_tok(&progs), sched_tok(&sched)),
            &format!("t={} w=0 n={}", t, n_eff),
        );
    }
    if n_live >= 2 && n_eff >= 3 {
        out.nontrivial();
    }
    pend.flush(out);
}

fn gen_seq_gauge_exact(r: &mut Rng, out: &mut Out) {
    let c0 = if r.chance(1, 2) { 0.0 } else { dy((r.next() % (1 << 30)) as i64 - (1 << 29)) };
    let n_live = r.range(1, 4);
    let with_noop = r.chance(1, 3);
    let nh = n_live + with_noop as usize;
    let n = r.range(1, 24);
    let mut r2 = r.clone();
    out.count("seq.gauge.exact");
    seq_gauge(out, c0, n_live, with_noop, n, GMode::Exact, &mut |cur: f64| {
        let h = r2.below(nh);
        if is_dy(cur) && r2.chance(3, 4) {
            (h, if r2.chance(1, 2) { GKind::Inc } else { GKind::Dec }, exact_arg(&mut r2))
        } else if r2.chance(1, 2) {
            (h, GKind::Set, Arg::F64(special_f64(&mut r2)))
        } else {
            (h, GKind::Set, exact_arg(&mut r2))
        }
    });
}

fn gen_seq_gauge_classes(r: &mut Rng, out: &mut Out) {
    let c0 = if r.chance(1, 2) { 0.0 } else { special_f64(r) };
    let n_live = r.range(1, 3);
    let with_noop = r.chance(1, 4);
    let nh = n_live + with_noop as usize;
    let n = r.range(1, 16);
    let mut r2 = r.clone();
    out.count("seq.gauge.classes");
    seq_gauge(out, c0, n_live, with_noop, n, GMode::Classes, &mut |cur: f64| {
        let h = r2.below(nh);
        let nonfinite = [f64::NAN, f64::INFINITY, f64::NEG_INFINITY];
        let k = if r2.chance(1, 2) { GKind::Inc } else { GKind::Dec };
        match r2.below(4) {
            // arithmetic with a NaN / ±∞ operand: determined whatever the other operand is
            0 | 1 => (h, k, Arg::F64(*r2.pick(&nonfinite))),
            2 => {
                if !cur.is_finite() || is_dy(cur) {
                    (h, k, exact_arg(&mut r2))
                } else {
                    (h, GKind::Set, Arg::F32(*r2.pick(&[f32::NAN, f32::INFINITY, f32::NEG_INFINITY, f32::MAX, f32::MIN_POSITIVE])))
                }
            }
            _ => (h, GKind::Set, Arg::F64(special_f64(&mut r2))),
        }
    });
}

/// an operand chosen RELATIVE to the current value, so that the addition really rounds: same or nearby exponent
/// (−60…+60), random fraction with a random number of low bits cleared (exact halves = ties), either sign;
/// now and then exactly ±current (cancellation to ±0) or current ± 1 ulp
fn near_f64(r: &mut Rng, cur: f64) -> f64 {
    if !cur.is_finite() {
        return special_f64(r);
    }
    let cb = cur.to_bits();
    match r.below(10) {
        0 => return cur,
        1 => return -cur,
        2 => return f64::from_bits((cb & !(1u64 << 63)).wrapping_add(1).min(0x7fef_ffff_ffff_ffff)),
        3 => return f64::from_bits((cb & !(1u64 << 63)).saturating_sub(1) | (r.next() & (1u64 << 63))),
        _ => {}
    }
    let e = ((cb >> 52) & 0x7ff) as i64;
    let ne = (e + r.range(0, 120) as i64 - 60).clamp(0, 2046) as u64;
    let keep = r.range(0, 52);
    let frac = (r.next() & ((1u64 << 52) - 1)) & !((1u64 << (52 - keep)) - 1);
    f64::from_bits((r.next() & (1u64 << 63)) | (ne << 52) | frac)
}

/// any argument whose conversion the bit-level model determines: every f64/f32 bit pattern (NaNs quiet), every
/// integer type, exact `Duration`s
fn ieee_arg(r: &mut Rng, cur: f64) -> Arg {
    match r.below(10) {
        0 | 1 => Arg::F64(special_f64(r)),
        2 => Arg::F64(*r.pick(&[0.0, -0.0, -0.0, 0.1, -0.1, 1e300, -1e300, f64::MAX, f64::MIN, f64::MIN_POSITIVE, 5e-324, -5e-324, 1.0, 0.5, 9007199254740992.0])),
        3 => Arg::F32(*r.pick(&[0.0f32, -0.0, 0.1, 1.0e-45, -1.0e-45, f32::MIN_POSITIVE, f32::MAX, f32::MIN, f32::INFINITY, f32::NEG_INFINITY, f32::NAN, 16777217.0])),
        4 => exact_arg(r),
        _ => Arg::F64(near_f64(r, cur)),
    }
}

/// (A2') gauge sessions over ALL operand classes — non-dyadic values, subnormals, ±0.0 as current value and as
/// operand, huge values, NaN/±∞ — compared bit for bit with the model's IEEE addition; `Arc<Arc<AtomicU64>>`
/// handles (index 3) are used as often as the others
fn gen_seq_gauge_ieee(r: &mut Rng, out: &mut Out) {
    let c0 = match r.below(4) {
        0 => 0.0,
        1 => -0.0,
        _ => special_f64(r),
    };
    let n_live = *r.pick(&[1usize, 2, 3, 4, 4, 4]);
    let with_noop = r.chance(1, 4);
    let nh = n_live + with_noop as usize;
    let n = r.range(1, 24);
    let mut r2 = r.clone();
    out.count("seq.gauge.ieee");
    seq_gauge(out, c0, n_live, with_noop, n, GMode::Ieee, &mut |cur: f64| {
        let h = if n_live == 4 && r2.chance(1, 2) { 3 } else { r2.below(nh) };
        let a = ieee_arg(&mut r2, cur);
        match r2.below(8) {
            0 => (h, GKind::Set, a),
            1..=4 => (h, GKind::Inc, a),
            _ => (h, GKind::Dec, a),
        }
    });
}

/// `GaugeValue::update_value` (what exporters use to replay gauge operations): compared with the model
/// (`atomics upd`), with a native computation, and with what the SAME operation does to the real storage
fn gen_update_value(r: &mut Rng, out: &mut Out) {
    let mut pend = Pending::default();
    out.count("seq.update_value");
    for _ in 0..12 {
        let input = match r.below(4) {
            0 => *r.pick(&[0.0, -0.0]),
            _ => special_f64(r),
        };
        let x = match r.below(3) {
            0 => special_f64(r),
            1 => *r.pick(&[0.0, -0.0, 0.1, 1.0, -1.0, 1e300, 5e-324]),
            _ => near_f64(r, input),
        };
        let k = r.below(3);
        let (gv, ktok, kind) = match k {
            0 => (GaugeValue::Absolute(x), "a", GKind::Set),
            1 => (GaugeValue::Increment(x), "i", GKind::Inc),
            _ => (GaugeValue::Decrement(x), "d", GKind::Dec),
        };
        let what = format!("{:?}.update_value({:016x})", gv, input.to_bits());
        let mut got = f64::NAN;
        guarded(&mut pend, &what, || got = gv.update_value(input));
        let want = match k {
            0 => x,
            1 => input + x,
            _ => input - x,
        };
        if !same_f64_bits(got.to_bits(), want) {
            pend.fail(
                "GaugeValue::update_value did not return set → the value, increment → input + value, decrement → input − value",
                &format!("{} returned {:016x} want {:016x}", what, got.to_bits(), want.to_bits()),
            );
        }
        // the same operation on the real storage, through a handle
        let arc = Arc::new(AtomicU64::new(input.to_bits()));
        let g = Gauge::from_arc(Arc::new(arc.clone()));
        guarded(&mut pend, &what, || gauge_call(&g, kind, Arg::F64(x)));
        let cell = arc.load(Ordering::SeqCst);
        if !same_f64_bits(cell, got) {
            pend.fail(
                "GaugeValue::update_value disagrees with what the same gauge operation does to the AtomicU64 storage",
                &format!("{} returned {:016x}, the storage holds {:016x}", what, got.to_bits(), cell),
            );
        }
        out.op(
            &format!("atomics upd {:x} {} f64:{:016x}", input.to_bits(), ktok, x.to_bits()),
            &(if got.is_nan() { "nan".to_string() } else { format!("{:016x}", got.to_bits()) }),
        );
    }
    out.nontrivial();
    pend.flush(out);
}

// ---------------------------------------------------------------------------------------------
// (A4) histograms: logging doubles behind the handles

#[derive(Default)]
struct Log {
    v: Mutex<Vec<u64>>,
}
impl HistogramFn for Log {
    fn record(&self, value: f64) {
        self.v.lock().unwrap().push(value.to_bits());
    }
}

/// a double that overrides `record_many` (one entry per call, with its count)
#[derive(Default)]
struct Batch {
    v: Mutex<Vec<(u64, usize)>>,
}
impl HistogramFn for Batch {
    fn record(&self, value: f64) {
        self.v.lock().unwrap().push((value.to_bits(), 1));
    }
    fn record_many(&self, value: f64, count: usize) {
        self.v.lock().unwrap().push((value.to_bits(), count));
    }
}

fn hist_handle(log: &Arc<Log>, depth: usize) -> Histogram {
    match depth {
        0 => Histogram::from_arc(log.clone()),
        1 => Histogram::from_arc(Arc::new(log.clone())),
        _ => Histogram::from_arc(Arc::new(Arc::new(log.clone()))),
    }
}

fn rle(v: &[u64]) -> String {
    let mut runs: Vec<(u64, usize)> = vec![];
    for x in v {
        match runs.last_mut() {
            Some((y, n)) if y == x => *n += 1,
            _ => runs.push((*x, 1)),
        }
    }
    list(runs.iter().map(|(x, n)| format!("{:016x}x{}", x, n)))
}

/// any argument the model determines exactly (all types, special values included)
fn hist_arg(r: &mut Rng) -> Arg {
    match r.below(4) {
        0 => Arg::F64(special_f64(r)),
        1 => Arg::F32(*r.pick(&[f32::NAN, f32::INFINITY, f32::NEG_INFINITY, f32::MAX, f32::MIN, f32::MIN_POSITIVE, 1.0e-45, -0.0, 0.1])),
        _ => exact_arg(r),
    }
}

fn same_f64_bits(got: u64, want: f64) -> bool {
    if want.is_nan() {
        f64::from_bits(got).is_nan()
    } else {
        got == want.to_bits()
    }
}

fn seq_hist(out: &mut Out, depth: usize, calls: &[(bool, Arg, Option<usize>)]) {
    let mut pend = Pending::default();
    let log = Arc::new(Log::default());
    let live = hist_handle(&log, depth);
    let live2 = live.clone();
    // round 4: clones of clones, all alive at once (≥ 4 owners of the one inner `Arc`)
    let live3 = live2.clone();
    let live4 = live3.clone();
    let noop = Histogram::noop().clone();
    let mut toks = vec![];
    let mut delivered = 0usize;
    for (i, (is_live, a, many)) in calls.iter().enumerate() {
        let h = if !*is_live {
            &noop
        } else {
            [&live, &live2, &live3, &live4][i % 4]
        };
        let tok = match many {
            None => format!("{}r={}", if *is_live { "L" } else { "N" }, a.tok()),
            Some(n) => format!("{}m={}*{}", if *is_live { "L" } else { "N" }, a.tok(), n),
        };
        guarded(&mut pend, &tok, || match many {
            None => with_arg!(*a, x => h.record(x)),
            Some(n) => with_arg!(*a, x => h.record_many(x, *n)),
        });
        toks.push(tok.clone());
        let want_n = if *is_live { many.unwrap_or(1) } else { 0 };
        let v = log.v.lock().unwrap();
        if v.len() != delivered + want_n {
            pend.fail(
                "histogram call did not deliver its value exactly the requested number of times",
                &format!("{} delivered {} expected {}", tok, v.len() as i64 - delivered as i64, want_n),
            );
        } else if !v[delivered..].iter().all(|b| same_f64_bits(*b, a.expected())) {
            pend.fail("histogram delivered a value other than the documented f64 conversion of the argument", &tok);
        }
        delivered = v.len();
    }
    let v = log.v.lock().unwrap();
    out.op(&format!("atomics hist {} {}", depth, if toks.is_empty() { "-".to_string() } else { toks.join("+") }), &rle(&v));
    if calls.iter().filter(|c| c.0).count() >= 2 {
        out.nontrivial();
    }
    pend.flush(out);
}

fn gen_seq_hist(r: &mut Rng, out: &mut Out) {
    let depth = r.below(3);
    let n = r.range(1, 10);
    let calls: Vec<(bool, Arg, Option<usize>)> = (0..n)
        .map(|_| {
            let live = !r.chance(1, 6);
            let a = hist_arg(r);
            let many = if r.chance(1, 2) { Some(*r.pick(&[0usize, 1, 2, 3, 64, 65, 1000])) } else { None };
            (live, a, many)
        })
        .collect();
    out.count(&format!("seq.hist.depth={}", depth));
    seq_hist(out, depth, &calls);
}

/// `IntoF64` one value at a time, every type, through `histogram.record(x)`
fn conv_one(out: &mut Out, a: Arg) {
    let mut pend = Pending::default();
    let log = Arc::new(Log::default());
    let h = Histogram::from_arc(log.clone());
    guarded(&mut pend, &a.tok(), || with_arg!(a, x => h.record(x)));
    let v = log.v.lock().unwrap();
    if v.len() != 1 {
        pend.fail("record(x) did not deliver exactly once", &format!("{} delivered {} times", a.tok(), v.len()));
        out.op(&format!("atomics conv {}", a.tok()), &format!("delivered {} times", v.len()));
        drop(v);
        pend.flush(out);
        return;
    }
    let got = v[0];
    if !same_f64_bits(got, a.expected()) {
        pend.fail(
            "record(x) delivered a value other than the documented f64 conversion of the argument",
            &format!("{} got {:016x} want {:016x}", a.tok(), got, a.expected().to_bits()),
        );
    }
    if let Arg::Dur(d) = a {
        // independent of std's as_secs_f64: seconds + nanos·1e-9, within rounding
        let approx = d.as_secs() as f64 + d.subsec_nanos() as f64 * 1e-9;
        let g = f64::from_bits(got);
        if !((g - approx).abs() <= approx.abs() * 1e-12 + 1e-12) {
            pend.fail("a Duration was not delivered as seconds (f64)", &format!("{} got {}", a.tok(), g));
        }
    }
    let ans = if !a.model_exact() { "inexact".to_string() } else { format!("{:016x}", got) };
    out.op(&format!("atomics conv {}", a.tok()), &ans);
    // the doc-hidden monomorphisation helper the `histogram!` macro calls
    let mut via = f64::NAN;
    guarded(&mut pend, "__into_f64", || via = with_arg!(a, x => metrics::__into_f64(x)));
    if !same_f64_bits(via.to_bits(), a.expected()) {
        pend.fail(
            "__into_f64(x) returned a value other than the documented f64 conversion of the argument",
            &format!("{} got {:016x} want {:016x}", a.tok(), via.to_bits(), a.expected().to_bits()),
        );
    }
    let ans2 = if !a.model_exact() {
        "inexact".to_string()
    } else if via.is_nan() && a.expected().is_nan() {
        format!("{:016x}", got)
    } else {
        format!("{:016x}", via.to_bits())
    };
    out.op(&format!("atomics dconv {}", a.tok()), &ans2);
    pend.flush(out);
}

fn conv_corpus(out: &mut Out) {
    out.case("corpus: IntoF64 table");
    let mut v: Vec<Arg> = vec![];
    for x in [i8::MIN, -1, 0, 1, i8::MAX] {
        v.push(Arg::I8(x));
    }
    for x in [0, 1, u8::MAX] {
        v.push(Arg::U8(x));
    }
    for x in [i16::MIN, -1, 0, i16::MAX] {
        v.push(Arg::I16(x));
    }
    for x in [0, u16::MAX] {
        v.push(Arg::U16(x));
    }
    for x in [i32::MIN, -1, 0, 1, i32::MAX] {
        v.push(Arg::I32(x));
    }
    for x in [0, 1, u32::MAX] {
        v.push(Arg::U32(x));
    }
    for x in [0.0f32, -0.0, 1.0, 0.1, f32::MAX, f32::MIN, f32::MIN_POSITIVE, 1.0e-45, f32::INFINITY, f32::NEG_INFINITY, f32::NAN, f32::EPSILON] {
        v.push(Arg::F32(x));
    }
    for b in SPECIAL_BITS {
        v.push(Arg::F64(f64::from_bits(*b)));
    }
    for d in [
        Duration::new(0, 0),
        Duration::new(1, 0),
        Duration::new(3, 500_000_000),
        Duration::new(0, 1_953_125),
        Duration::new(0, 1),
        Duration::new(0, 999_999_999),
        Duration::new(12, 345_678_901),
        Duration::from_millis(1500),
        Duration::from_micros(1),
        Duration::new((1u64 << 43) - 1, 0),
        Duration::new(1u64 << 53, 0),
        Duration::new(u64::MAX, 999_999_999),
        Duration::MAX,
    ] {
        v.push(Arg::Dur(d));
    }
    for a in v {
        conv_one(out, a);
    }
    out.nontrivial();
}

/// doubles that override `record_many`, huge counts, no-op handles with huge counts (oracle only)
fn batch_corpus(out: &mut Out) {
    let mut pend = Pending::default();
    out.case("corpus: record_many overrides and usize counts");
    let b = Arc::new(Batch::default());
    let direct = Histogram::from_arc(b.clone());
    let wrapped = Histogram::from_arc(Arc::new(b.clone()));
    let noop = Histogram::noop();
    guarded(&mut pend, "noop.record_many(1.0, usize::MAX)", || noop.record_many(1.0, usize::MAX));
    guarded(&mut pend, "noop.record_many(NaN, 0)", || noop.record_many(f64::NAN, 0));
    guarded(&mut pend, "noop.record(inf)", || noop.record(f64::INFINITY));
    if !b.v.lock().unwrap().is_empty() {
        pend.fail("a call through a no-op histogram handle reached a storage", "");
    }
    guarded(&mut pend, "direct.record_many(2.5, usize::MAX)", || direct.record_many(2.5, usize::MAX));
    guarded(&mut pend, "direct.record_many(2.5, 0)", || direct.record_many(2.5, 0));
    guarded(&mut pend, "wrapped.record_many(7.0, 3)", || wrapped.record_many(7.0, 3));
    guarded(&mut pend, "wrapped.record_many(7.0, 0)", || wrapped.record_many(7.0, 0));
    guarded(&mut pend, "direct.record(u32::MAX)", || direct.record(u32::MAX));
    let got = b.v.lock().unwrap().clone();
    let s = 7.0f64.to_bits();
    let want = vec![(2.5f64.to_bits(), usize::MAX), (2.5f64.to_bits(), 0), (s, 1), (s, 1), (s, 1), ((u32::MAX as f64).to_bits(), 1)];
    if got != want {
        pend.fail(
            "record_many(v, n) did not deliver v exactly n times (override used directly / default loop through Arc<T>)",
            &format!("got {:?} want {:?}", got, want),
        );
    }
    // the same deliveries, as the model sees them through one `Arc` wrapper
    out.op("atomics hist 1 Lm=f64:401c000000000000*3+Lm=f64:401c000000000000*0", &format!("{:016x}x3", s));
    out.nontrivial();
    pend.flush(out);
}

// ---------------------------------------------------------------------------------------------
// (B) concurrent: real threads, commuting exact values

struct Start {
    arrived: AtomicUsize,
    go: AtomicBool,
}

/// runs the bodies truly concurrently (spin barrier); returns the number of calls that panicked
fn race(bodies: Vec<Box<dyn FnOnce() -> usize + Send>>) -> usize {
    let n = bodies.len();
    let st = Arc::new(Start { arrived: AtomicUsize::new(0), go: AtomicBool::new(false) });
    let hs: Vec<_> = bodies
        .into_iter()
        .map(|b| {
            let st = st.clone();
            std::thread::spawn(move || {
                st.arrived.fetch_add(1, Ordering::SeqCst);
                while !st.go.load(Ordering::Acquire) {
                    std::hint::spin_loop();
                }
                b()
            })
        })
        .collect();
    while st.arrived.load(Ordering::SeqCst) < n {
        std::hint::spin_loop();
    }
    st.go.store(true, Ordering::Release);
    hs.into_iter().map(|h| h.join().unwrap_or(1)).sum()
}

fn round_robin(lens: &[usize]) -> Vec<usize> {
    let mut s = vec![];
    let m = lens.iter().copied().max().unwrap_or(0);
    for k in 0..m {
        for (t, l) in lens.iter().enumerate() {
            if k < *l {
                s.push(t);
            }
        }
    }
    s
}

#[derive(Clone, Copy, PartialEq, Debug)]
enum CKind {
    Inc,
    Abs,
    Mixed,
}

/// Runs the counter programs truly concurrently, one thread per program, through clones of `root`
/// (`Counter::clone`, `From<Arc<_>>`, `from_arc(Arc<Arc<AtomicU64>>)` in turn).  With `observe`, every thread
/// reads the cell right after each of its live calls and checks what holds for EVERY interleaving when no
/// increment wraps (`C04.counter_abs`, `C04.counter_abs_monotone`): the values one thread sees never decrease,
/// and right after `absolute(v)` returned the counter is at least `v` (the update was not dropped).
/// Returns (panicked calls, first violation of each thread).
fn run_counter_progs(arc: &Arc<AtomicU64>, root: &Counter, progs: &[Vec<(bool, COp)>], observe: bool) -> (usize, Vec<(String, String)>) {
    let viol: Arc<Mutex<Vec<(String, String)>>> = Arc::new(Mutex::new(vec![]));
    let bodies: Vec<Box<dyn FnOnce() -> usize + Send>> = progs
        .iter()
        .enumerate()
        .map(|(t, p)| {
            let p = p.clone();
            let h = match t % 3 {
                0 => root.clone(),
                1 => Counter::from(arc.clone()),
                _ => Counter::from_arc(Arc::new(arc.clone())), // Arc<Arc<AtomicU64>>: `impl CounterFn for Arc<T>`
            };
            let noop = Counter::noop();
            let cell = arc.clone();
            let viol = viol.clone();
            Box::new(move || {
                let mut panics = 0;
                let mut last = cell.load(Ordering::SeqCst);
                let mut bad: Option<(String, String)> = None;
                for (i, (live, op)) in p.into_iter().enumerate() {
                    let hh = if live { &h } else { &noop };
                    let res = catch_unwind(AssertUnwindSafe(|| match op {
                        COp::Inc(v) => hh.increment(v),
                        COp::Abs(v) => hh.absolute(v),
                    }));
                    panics += res.is_err() as usize;
                    if observe && live {
                        let seen = cell.load(Ordering::SeqCst);
                        if bad.is_none() {
                            if seen < last {
                                bad = Some((
                                    "concurrent counter updates without wrap-around: a thread saw the counter decrease".to_string(),
                                    format!("thread {} call #{} {:?}: saw {} after having seen {}", t, i, op, seen, last),
                                ));
                            } else if let COp::Abs(v) = op {
                                if seen < v {
                                    bad = Some((
                                        "concurrent counter updates: right after absolute(v) returned the counter was below v (the absolute update was dropped)".to_string(),
                                        format!("thread {} call #{} absolute({}) left the counter at {} (seen before the call: {})", t, i, v, seen, last),
                                    ));
                                }
                            }
                        }
                        last = seen;
                    }
                }
                if let Some(b) = bad {
                    viol.lock().unwrap().push(b);
                }
                panics
            }) as Box<dyn FnOnce() -> usize + Send>
        })
        .collect();
    let panics = race(bodies);
    let v = viol.lock().unwrap().clone();
    (panics, v)
}

fn counter_toks(progs: &[Vec<(bool, COp)>]) -> Vec<Vec<String>> {
    progs
        .iter()
        .map(|p| {
            p.iter()
                .map(|(live, op)| match op {
                    COp::Inc(v) => format!("{}i{}", if *live { "L" } else { "N" }, v),
                    COp::Abs(v) => format!("{}a{}", if *live { "L" } else { "N" }, v),
                })
                .collect()
        })
        .collect()
}

/// absolutes RACING increments (the interleavings in which another writer lands inside an `absolute`):
///  * `low`: every absolute value is ≤ the start value, so no absolute may change anything and the final value
///    is exactly start + Σ increments whatever the order (compared with the model run too);
///  * `growing`: 1–2 threads publish strictly growing absolute values, each far above anything the increments
///    of the other threads can reach (so every one of them must take effect), each checked right after its call.
fn conc_counter_race(r: &mut Rng, out: &mut Out, len: usize) {
    let mut pend = Pending::default();
    let low = r.chance(1, 3);
    let nt = r.range(2, 4);
    const STEP: u64 = 1 << 32;
    let c0: u64 = if low { (1u64 << 40) + r.below(1000) as u64 } else { r.below(1000) as u64 };
    let n_abs = if nt >= 3 && r.chance(1, 2) { 2 } else { 1 };
    let per = len * 2;
    let mut progs: Vec<Vec<(bool, COp)>> = vec![];
    for t in 0..nt {
        let k = r.range(per / 2, per);
        let inc_max = *r.pick(&[1usize, 1, 4, 16]);
        progs.push(
            (0..k)
                .map(|j| {
                    let live = !r.chance(1, 200);
                    let op = if low {
                        if r.chance(1, 2) {
                            COp::Inc(r.range(0, 16) as u64)
                        } else {
                            let any = r.next() % (c0 + 1);
                            COp::Abs(*r.pick(&[0, 1, c0, c0 - 1, any]))
                        }
                    } else if t < n_abs {
                        // mostly growing absolutes, now and then an older (smaller) one or an increment of its own
                        match r.below(16) {
                            0 => COp::Abs((r.next() % (j as u64 + 1)) * STEP),
                            1 => COp::Inc(1),
                            _ => COp::Abs(((j * n_abs + t + 1) as u64) * STEP),
                        }
                    } else {
                        COp::Inc(r.range(1, inc_max) as u64)
                    };
                    (live, op)
                })
                .collect(),
        );
    }
    let arc = Arc::new(AtomicU64::new(c0));
    let root = Counter::from_arc(arc.clone());
    let (panics, observed) = run_counter_progs(&arc, &root, &progs, true);
    if panics > 0 {
        pend.fail("a handle operation panicked", &format!("{} calls in a concurrent counter run", panics));
    }
    for v in observed {
        pend.fail(&v.0, &v.1);
    }
    let fin = arc.load(Ordering::SeqCst);
    let (mut sum, mut mx, mut n_eff) = (0u128, c0, 0u64);
    for p in &progs {
        for (live, op) in p {
            if *live {
                n_eff += 1;
                match op {
                    COp::Inc(v) => sum += *v as u128,
                    COp::Abs(v) => mx = mx.max(*v),
                }
            }
        }
    }
    let detail = format!("threads {} calls {} start {} final {} largest absolute {} sum of increments {}", nt, n_eff, c0, fin, mx, sum);
    if fin < mx || (fin as u128) > mx as u128 + sum {
        pend.fail("concurrent increments and absolutes: counter below the largest absolute value or above max + increments", &detail);
    }
    if low {
        if fin as u128 != c0 as u128 + sum {
            pend.fail(
                "concurrent increments with absolutes that are all below the counter: the counter is not start + all increments (an increment was lost or an absolute changed the value)",
                &detail,
            );
        }
        let lens: Vec<usize> = progs.iter().map(|p| p.len()).collect();
        out.op(
            &format!("atomics run {:x} {} {}", c0, progs_tok(&counter_toks(&progs)), sched_tok(&round_robin(&lens))),
            &format!("cell={:016x} w=0 n={} done=1", fin, n_eff),
        );
    } else {
        // the result of the race depends on the order; so that the replay carries the programs and the model sees
        // them too, the SAME programs are run once more on a fresh cell through real handles, one call at a time
        // in round-robin order, and that run is compared with the model on the same schedule
        let lens: Vec<usize> = progs.iter().map(|p| p.len()).collect();
        let sched = round_robin(&lens);
        let arc2 = Arc::new(AtomicU64::new(c0));
        let hs = counter_handles(&arc2, progs.len(), true);
        let mut pos = vec![0usize; progs.len()];
        for t in &sched {
            let (live, op) = progs[*t][pos[*t]];
            pos[*t] += 1;
            let hh = if live { &hs[*t].0 } else { &hs[progs.len()].0 };
            guarded(&mut pend, "sequential re-run of the raced programs", || match op {
                COp::Inc(v) => hh.increment(v),
                COp::Abs(v) => hh.absolute(v),
            });
        }
        out.op(
            &format!("atomics run {:x} {} {}", c0, progs_tok(&counter_toks(&progs)), sched_tok(&sched)),
            &format!("cell={:016x} w=0 n={} done=1", arc2.load(Ordering::SeqCst), n_eff),
        );
    }
    out.count(&format!("conc.counter.race.{}.threads={}", if low { "low_abs" } else { "growing_abs" }, nt));
    out.nontrivial();
    pend.flush(out);
}

fn conc_counter(r: &mut Rng, out: &mut Out, kind: CKind, len: usize) {
    let mut pend = Pending::default();
    let nt = r.range(2, 4);
    let c0 = match kind {
        CKind::Mixed => r.below(1000) as u64,
        _ => {
            if r.chance(1, 2) {
                0
            } else {
                u64_class(r)
            }
        }
    };
    let arc = Arc::new(AtomicU64::new(c0));
    let root = Counter::from_arc(arc.clone());
    let mut progs: Vec<Vec<(bool, COp)>> = vec![];
    for _ in 0..nt {
        let k = r.range(len / 2, len);
        let big = r.chance(1, 3);
        progs.push(
            (0..k)
                .map(|_| {
                    let live = !r.chance(1, 50);
                    let v = match kind {
                        CKind::Mixed => r.below(1 << 20) as u64,
                        _ => {
                            if big {
                                r.next()
                            } else {
                                r.below(1 << 16) as u64
                            }
                        }
                    };
                    let op = match kind {
                        CKind::Inc => COp::Inc(v),
                        CKind::Abs => COp::Abs(v),
                        CKind::Mixed => {
                            if r.chance(1, 2) {
                                COp::Inc(v)
                            } else {
                                COp::Abs(v)
                            }
                        }
                    };
                    (live, op)
                })
                .collect(),
        );
    }
    let (panics, observed) = run_counter_progs(&arc, &root, &progs, kind != CKind::Inc);
    if panics > 0 {
        pend.fail("a handle operation panicked", &format!("{} calls in a concurrent counter run", panics));
    }
    for v in observed {
        pend.fail(&v.0, &v.1);
    }
    let fin = arc.load(Ordering::SeqCst);
    // own tally
    let mut sum: u128 = c0 as u128;
    let mut mx = c0;
    let mut n_eff = 0u64;
    for p in &progs {
        for (live, op) in p {
            if *live {
                n_eff += 1;
                match op {
                    COp::Inc(v) => sum += *v as u128,
                    COp::Abs(v) => mx = mx.max(*v),
                }
            }
        }
    }
    let detail = format!("threads {} calls {} start {} final {}", nt, n_eff, c0, fin);
    match kind {
        CKind::Inc => {
            if fin as u128 != sum % (1u128 << 64) {
                pend.fail(
                    "concurrent increments through clones: counter is not the sum of all increments mod 2^64 (an update was lost or doubled)",
                    &format!("{} expected {}", detail, sum % (1u128 << 64)),
                );
            }
        }
        CKind::Abs => {
            if fin != mx {
                pend.fail("concurrent absolute updates: counter is not the largest value given", &format!("{} expected {}", detail, mx));
            }
        }
        CKind::Mixed => {
            // values small enough not to wrap: final ≥ every absolute, ≥ start, ≤ max + all increments
            if fin < mx || (fin as u128) > mx as u128 + (sum - c0 as u128) {
                pend.fail("concurrent increments and absolutes: counter below the largest absolute value or above max + increments", &detail);
            }
        }
    }
    if kind != CKind::Mixed {
        let toks: Vec<Vec<String>> = progs
            .iter()
            .map(|p| {
                p.iter()
                    .map(|(live, op)| match op {
                        COp::Inc(v) => format!("{}i{}", if *live { "L" } else { "N" }, v),
                        COp::Abs(v) => format!("{}a{}", if *live { "L" } else { "N" }, v),
                    })
                    .collect()
            })
            .collect();
        let lens: Vec<usize> = progs.iter().map(|p| p.len()).collect();
        let wrapped = kind == CKind::Inc && sum >= (1u128 << 64);
        out.op(
            &format!("atomics run {:x} {} {}", c0, progs_tok(&toks), sched_tok(&round_robin(&lens))),
            &format!("cell={:016x} w={} n={} done=1", fin, wrapped as u8, n_eff),
        );
    }
    out.count(&format!("conc.counter.{:?}.threads={}", kind, nt));
    out.nontrivial();
    pend.flush(out);
}

fn conc_gauge(r: &mut Rng, out: &mut Out, len: usize) {
    let mut pend = Pending::default();
    let nt = r.range(2, 4);
    let c0k = (r.next() % (1 << 30)) as i64 - (1 << 29);
    let arc = Arc::new(AtomicU64::new(dy(c0k).to_bits()));
    let root = Gauge::from_arc(arc.clone());
    let mut progs: Vec<Vec<(bool, bool, i64)>> = vec![]; // (live, is_inc, k)
    for _ in 0..nt {
        let k = r.range(len / 2, len);
        progs.push((0..k).map(|_| (!r.chance(1, 50), r.chance(1, 2), (r.next() % (1 << 20)) as i64 - (1 << 19))).collect());
    }
    let bodies: Vec<Box<dyn FnOnce() -> usize + Send>> = progs
        .iter()
        .enumerate()
        .map(|(t, p)| {
            let p = p.clone();
            let h = if t % 2 == 0 { root.clone() } else { Gauge::from_arc(Arc::new(arc.clone())) };
            let noop = Gauge::noop();
            Box::new(move || {
                let mut panics = 0;
                for (live, inc, k) in p {
                    let hh = if live { &h } else { &noop };
                    let res = catch_unwind(AssertUnwindSafe(|| if inc { hh.increment(dy(k)) } else { hh.decrement(dy(k)) }));
                    panics += res.is_err() as usize;
                }
                panics
            }) as Box<dyn FnOnce() -> usize + Send>
        })
        .collect();
    let panics = race(bodies);
    if panics > 0 {
        pend.fail("a handle operation panicked", &format!("{} calls in a concurrent gauge run", panics));
    }
    let fin = arc.load(Ordering::SeqCst);
    let mut sum: i128 = c0k as i128;
    let mut n_eff = 0u64;
    for p in &progs {
        for (live, inc, k) in p {
            if *live {
                n_eff += 1;
                sum += if *inc { *k as i128 } else { -(*k as i128) };
            }
        }
    }
    let want = dy(sum as i64).to_bits();
    if fin != want {
        pend.fail(
            "concurrent gauge increments/decrements through clones: the value is not start + all increments − all decrements (an update was lost or doubled)",
            &format!("threads {} calls {} final {:016x} ({}) expected {:016x} ({})", nt, n_eff, fin, f64::from_bits(fin), want, f64::from_bits(want)),
        );
    }
    let toks: Vec<Vec<String>> = progs
        .iter()
        .map(|p| {
            p.iter()
                .map(|(live, inc, k)| format!("{}g{}=f64:{:016x}", if *live { "L" } else { "N" }, if *inc { "i" } else { "d" }, dy(*k).to_bits()))
                .collect()
        })
        .collect();
    let lens: Vec<usize> = progs.iter().map(|p| p.len()).collect();
    out.op(
        &format!("atomics run {:x} {} {}", dy(c0k).to_bits(), progs_tok(&toks), sched_tok(&round_robin(&lens))),
        &format!("cell={:016x} w=0 n={} done=1", fin, n_eff),
    );
    out.count(&format!("conc.gauge.threads={}", nt));
    out.nontrivial();
    pend.flush(out);
}

/// racing `set`s: the gauge ends at one of the values given (oracle only)
fn conc_gauge_set(r: &mut Rng, out: &mut Out, len: usize) {
    let mut pend = Pending::default();
    let nt = r.range(2, 4);
    let arc = Arc::new(AtomicU64::new(0));
    let root = Gauge::from_arc(arc.clone());
    let vals: Vec<Vec<f64>> = (0..nt).map(|_| (0..r.range(len / 2, len)).map(|_| special_f64(r)).collect()).collect();
    let bodies: Vec<Box<dyn FnOnce() -> usize + Send>> = vals
        .iter()
        .map(|p| {
            let p = p.clone();
            let h = root.clone();
            Box::new(move || p.into_iter().map(|v| catch_unwind(AssertUnwindSafe(|| h.set(v))).is_err() as usize).sum()) as Box<dyn FnOnce() -> usize + Send>
        })
        .collect();
    let panics = race(bodies);
    if panics > 0 {
        pend.fail("a handle operation panicked", &format!("{} calls in a concurrent gauge set run", panics));
    }
    let fin = arc.load(Ordering::SeqCst);
    if !vals.iter().any(|p| p.last().map(|v| v.to_bits()) == Some(fin)) {
        pend.fail("racing gauge sets: the value is not the last set of any thread", &format!("{:016x}", fin));
    }
    out.count("conc.gauge.set_race");
    out.nontrivial();
    pend.flush(out);
}

/// (round 4) `set` RACING `increment`/`decrement`, with special values in the cell: one thread sets, in turn, NaN,
/// ±0.0, ±∞ and bases `j·2^40`; 1–3 workers add their own unit `2^(10w)` (by `increment(u)` or `decrement(-u)`), at
/// most 1000 times each, so every value the cell can hold is exactly representable and decodes uniquely into
/// (base, per-worker digit).  Right after each of its sets the setter reads the cell.  In EVERY interleaving: after
/// `set(NaN)` the cell is NaN, after `set(±∞)` that infinity, after `set(base)` / `set(±0.0)` it is base + Σ digit_w·u_w
/// with digit_w ≤ the worker's number of calls — an update computed from a stale value (a retry that does not re-read,
/// a float comparison of NaN / ±0.0 cells) resurrects an older base or a NaN and breaks this; the same for the final value.
fn conc_gauge_set_vs_inc(r: &mut Rng, out: &mut Out, len: usize) {
    let mut pend = Pending::default();
    let nw = r.range(1, 3);
    let arc = Arc::new(AtomicU64::new(0));
    let root = Gauge::from_arc(arc.clone());
    let n_calls: Vec<usize> = (0..nw).map(|_| r.range(len.min(1000) / 2, len.min(1000))).collect();
    let n_sets = r.range(len / 2, len);
    let mut sets: Vec<f64> = vec![];
    for j in 0..n_sets {
        let v = if j + 1 == n_sets || r.chance(1, 2) {
            ((j as u64 + 1) << 40) as f64
        } else {
            *r.pick(&[f64::NAN, 0.0, -0.0, -0.0, f64::INFINITY, f64::NEG_INFINITY, -f64::NAN])
        };
        sets.push(v);
    }
    let decode = {
        let n_calls = n_calls.clone();
        move |bits: u64, base: u64| -> Result<(), String> {
            let v = f64::from_bits(bits);
            if !(v.is_finite() && v >= 0.0 && v.fract() == 0.0 && v < (1u64 << 53) as f64) {
                return Err(format!("{:016x} ({}) is not base + increments", bits, v));
            }
            let x = v as u64;
            if x >> 40 != base {
                return Err(format!("{:016x} ({}): base {} instead of {}", bits, v, x >> 40, base));
            }
            for w in 0..4 {
                let d = ((x >> (10 * w)) & 1023) as usize;
                if d > n_calls.get(w).copied().unwrap_or(0) {
                    return Err(format!("{:016x} ({}): worker {} counted {} times, it makes {} calls", bits, v, w, d, n_calls.get(w).copied().unwrap_or(0)));
                }
            }
            Ok(())
        }
    };
    let check = {
        let decode = decode.clone();
        move |set: f64, seen: u64| -> Result<(), String> {
            let s = f64::from_bits(seen);
            if set.is_nan() {
                if s.is_nan() { Ok(()) } else { Err(format!("after set(NaN) the cell is {:016x} ({})", seen, s)) }
            } else if set.is_infinite() {
                if s == set { Ok(()) } else { Err(format!("after set({}) the cell is {:016x} ({})", set, seen, s)) }
            } else {
                decode(seen, (set as u64) >> 40).map_err(|e| format!("after set({}): {}", set, e))
            }
        }
    };
    let bad: Arc<Mutex<Vec<String>>> = Arc::new(Mutex::new(vec![]));
    let mut bodies: Vec<Box<dyn FnOnce() -> usize + Send>> = vec![];
    {
        let h = root.clone();
        let cell = arc.clone();
        let sets = sets.clone();
        let bad = bad.clone();
        let check = check.clone();
        bodies.push(Box::new(move || {
            let mut panics = 0;
            for v in sets {
                panics += catch_unwind(AssertUnwindSafe(|| h.set(v))).is_err() as usize;
                let seen = cell.load(Ordering::SeqCst);
                if let Err(e) = check(v, seen) {
                    let mut b = bad.lock().unwrap();
                    if b.len() < 3 {
                        b.push(e);
                    }
                }
            }
            panics
        }));
    }
    for w in 0..nw {
        let h = if w % 2 == 0 { root.clone().clone() } else { Gauge::from_arc(Arc::new(arc.clone())) };
        let n = n_calls[w];
        let u = (1u64 << (10 * w)) as f64;
        let mut rw = r.fork(w as u64);
        bodies.push(Box::new(move || {
            let mut panics = 0;
            for _ in 0..n {
                let inc = rw.chance(1, 2);
                panics += catch_unwind(AssertUnwindSafe(|| if inc { h.increment(u) } else { h.decrement(-u) })).is_err() as usize;
            }
            panics
        }));
    }
    let panics = race(bodies);
    if panics > 0 {
        pend.fail("a handle operation panicked", &format!("{} calls in a concurrent set-vs-increment run", panics));
    }
    for e in bad.lock().unwrap().iter() {
        pend.fail("a gauge set racing increments/decrements did not leave its value (plus later increments): an update computed from a stale value overwrote it", e);
    }
    let fin = arc.load(Ordering::SeqCst);
    if let Err(e) = check(*sets.last().unwrap(), fin) {
        pend.fail("set racing increments/decrements: the final value is not the last set plus increments that followed it", &format!("final: {}", e));
    }
    out.count(&format!("conc.gauge.set_vs_inc.workers={}", nw));
    out.nontrivial();
    pend.flush(out);
}

/// concurrent record / record_many through clones onto one logging storage: every delivery exactly once
fn conc_hist(r: &mut Rng, out: &mut Out, len: usize) {
    let mut pend = Pending::default();
    let nt = r.range(2, 4);
    let log = Arc::new(Log::default());
    let depth = r.below(3);
    let root = hist_handle(&log, depth);
    let progs: Vec<Vec<(u32, usize)>> = (0..nt)
        .map(|t| (0..r.range(len / 8 + 1, len / 4 + 1)).map(|_| ((t as u32) * 1000 + r.below(7) as u32, *r.pick(&[1usize, 1, 1, 0, 2, 65]))).collect())
        .collect();
    let bodies: Vec<Box<dyn FnOnce() -> usize + Send>> = progs
        .iter()
        .map(|p| {
            let p = p.clone();
            let h = root.clone();
            Box::new(move || {
                p.into_iter()
                    .map(|(v, n)| catch_unwind(AssertUnwindSafe(|| if n == 1 { h.record(v) } else { h.record_many(v, n) })).is_err() as usize)
                    .sum()
            }) as Box<dyn FnOnce() -> usize + Send>
        })
        .collect();
    let panics = race(bodies);
    if panics > 0 {
        pend.fail("a handle operation panicked", &format!("{} calls in a concurrent histogram run", panics));
    }
    // deliveries of one thread arrive in its program order; a stable sort by thread id (encoded in the value)
    // makes the real log comparable with the thread-by-thread concatenation the model computes
    let mut got = log.v.lock().unwrap().clone();
    got.sort_by_key(|b| (f64::from_bits(*b) as u64) / 1000);
    let want: Vec<u64> = progs.iter().flatten().flat_map(|(v, n)| std::iter::repeat((*v as f64).to_bits()).take(*n)).collect();
    if got != want {
        pend.fail(
            "concurrent record/record_many through clones: the deliveries differ from the requested ones (lost, doubled or reordered within a thread)",
            &format!("delivered {} expected {}", got.len(), want.len()),
        );
    }
    let toks: Vec<String> =
        progs.iter().flatten().map(|(v, n)| if *n == 1 { format!("Lr=u32:{}", v) } else { format!("Lm=u32:{}*{}", v, n) }).collect();
    out.op(&format!("atomics hist {} {}", depth, toks.join("+")), &rle(&got));
    out.count(&format!("conc.hist.depth={}", depth));
    out.nontrivial();
    pend.flush(out);
}

// ---------------------------------------------------------------------------------------------

// ---------------------------------------------------------------------------------------------
// (C, round 4) races under the deterministic scheduler, compared step by step with the CAS-loop machine
//
// Every thread parks before each of its calls (`c04.op`, a point of this harness) and — inside std's
// `fetch_update` — at the head of every evaluation of the closure of `GaugeFn::increment/decrement`
// (`atomics.gauge.cas`, hook-C04): after the load / a failed CAS and before the next CAS.  One grant = one
// shared-memory operation, the schedule is part of the input and is fed to the model (`atomics ctrace`).  After each
// call the thread reads the cell (still inside its grant, so the read is the value its own update left).

#[derive(Clone, Copy, Debug)]
enum SOp {
    Inc(u64),
    Abs(u64),
    GInc(f64),
    GDec(f64),
    GSet(f64),
}

impl SOp {
    fn tok(&self, live: bool) -> String {
        let h = if live { "L" } else { "N" };
        match self {
            SOp::Inc(v) => format!("{}i{}", h, v),
            SOp::Abs(v) => format!("{}a{}", h, v),
            SOp::GInc(v) => format!("{}gi=f64:{:016x}", h, v.to_bits()),
            SOp::GDec(v) => format!("{}gd=f64:{:016x}", h, v.to_bits()),
            SOp::GSet(v) => format!("{}gs=f64:{:016x}", h, v.to_bits()),
        }
    }
    fn is_cas_loop(&self) -> bool {
        matches!(self, SOp::GInc(_) | SOp::GDec(_))
    }
    /// what the update makes of the cell contents `cur`, computed natively (no crate code)
    fn apply_native(&self, cur: u64) -> u64 {
        match *self {
            SOp::Inc(v) => cur.wrapping_add(v),
            SOp::Abs(v) => cur.max(v),
            SOp::GInc(v) => (f64::from_bits(cur) + v).to_bits(),
            SOp::GDec(v) => (f64::from_bits(cur) - v).to_bits(),
            SOp::GSet(v) => v.to_bits(),
        }
    }
}

const CAS_POINT: &str = "atomics.gauge.cas";
const OP_POINT: &str = "c04.op";

fn same_cell(gauge: bool, a: u64, b: u64) -> bool {
    a == b || (gauge && f64::from_bits(a).is_nan() && f64::from_bits(b).is_nan())
}

fn cell_tok(gauge: bool, b: u64) -> String {
    if gauge && f64::from_bits(b).is_nan() {
        "nan".into()
    } else {
        format!("{:016x}", b)
    }
}

struct SchedOutcome {
    taken: Vec<usize>,
    toks: Vec<String>,
    n_commits: usize,
    fin: u64,
    fails: Vec<(String, String)>,
    missing_yield: usize,
    nan_cas: bool,
}

/// one scheduled run of `progs` (all counter programs or all gauge programs) on a fresh cell holding `c0`
fn sched_run(gauge: bool, c0: u64, progs: &[Vec<(bool, SOp)>], schedule: &[usize]) -> SchedOutcome {
    let arc = Arc::new(AtomicU64::new(c0));
    let croot = Counter::from_arc(arc.clone());
    let groot = Gauge::from_arc(arc.clone());
    let recs: Vec<Arc<Mutex<Vec<u64>>>> = progs.iter().map(|_| Arc::new(Mutex::new(vec![]))).collect();
    let mut keep_c = vec![];
    let mut keep_g = vec![];
    let bodies: Vec<Box<dyn FnOnce() + Send + 'static>> = progs
        .iter()
        .enumerate()
        .map(|(t, p)| {
            let p = p.clone();
            let rec = recs[t].clone();
            let cell = arc.clone();
            // clone, handle on Arc<Arc<AtomicU64>>, clone of a clone (the intermediate clone stays alive), From<Arc<T>>
            let (c, g) = match t % 4 {
                0 => (croot.clone(), groot.clone()),
                1 => (Counter::from_arc(Arc::new(arc.clone())), Gauge::from_arc(Arc::new(arc.clone()))),
                2 => {
                    let (c1, g1) = (croot.clone(), groot.clone());
                    let r = (c1.clone(), g1.clone());
                    keep_c.push(c1);
                    keep_g.push(g1);
                    r
                }
                _ => (Counter::from(arc.clone()), Gauge::from(arc.clone())),
            };
            let (cn, gn) = (Counter::noop(), Gauge::noop());
            Box::new(move || {
                for (i, (live, op)) in p.into_iter().enumerate() {
                    if i > 0 {
                        metrics::verif::point(OP_POINT);
                    }
                    let (ch, gh) = if live { (&c, &g) } else { (&cn, &gn) };
                    match op {
                        SOp::Inc(v) => ch.increment(v),
                        SOp::Abs(v) => ch.absolute(v),
                        SOp::GInc(v) => gh.increment(v),
                        SOp::GDec(v) => gh.decrement(v),
                        SOp::GSet(v) => gh.set(v),
                    }
                    rec.lock().unwrap().push(cell.load(Ordering::SeqCst));
                }
            }) as Box<dyn FnOnce() + Send + 'static>
        })
        .collect();
    let total: usize = progs.iter().map(|p| p.len()).sum();
    // a correct CAS loop retries at most once per update of another thread: far below this bound
    crate::sched::GRANT_LIMIT.store(64 + 8 * total * total, Ordering::SeqCst);
    crate::sched::GAUGE_CAS_POINTS.store(true, Ordering::SeqCst);
    let run = crate::sched::run_deadline(bodies, schedule, 10);
    crate::sched::GAUGE_CAS_POINTS.store(false, Ordering::SeqCst);
    crate::sched::GRANT_LIMIT.store(0, Ordering::SeqCst);
    let mut fails = vec![];
    if run.deadlock || run.timed_out {
        fails.push((
            "a scheduled run of counter/gauge updates did not finish (an update retries although no other thread interferes, or blocks)".to_string(),
            format!("deadlock={} gave_up={} after {} grants", run.deadlock, run.timed_out, run.trace.len()),
        ));
    }
    if !run.panicked.is_empty() {
        fails.push(("a handle operation panicked".to_string(), format!("threads {:?} in a scheduled run", run.panicked)));
    }
    let fin = arc.load(Ordering::SeqCst);
    let taken: Vec<usize> = run.trace.iter().map(|(t, _)| *t).collect();
    // per thread: the ids it was parked at when granted, in order
    let nt = progs.len();
    let mut parks: Vec<Vec<&'static str>> = vec![vec![]; nt];
    for (t, id) in &run.trace {
        parks[*t].push(id);
    }
    let recs: Vec<Vec<u64>> = recs.iter().map(|r| r.lock().unwrap().clone()).collect();
    let mut gi = vec![0usize; nt]; // grants seen per thread
    let mut done = vec![0usize; nt]; // calls completed per thread
    let mut seen: Vec<Option<u64>> = vec![None; nt]; // what the thread's last load / failed CAS saw
    let mut cur = c0; // the cell, as the recorded values say
    let mut toks = vec![];
    let mut n_commits = 0;
    let mut wrapped = false;
    let mut max_abs: Option<u64> = None;
    let mut missing_yield = 0usize;
    let mut nan_cas = false;
    for (t, id) in &run.trace {
        let t = *t;
        let j = gi[t];
        gi[t] += 1;
        let next_is_cas = parks[t].get(j + 1).map(|n| *n == CAS_POINT).unwrap_or(false);
        let at_cas = *id == CAS_POINT;
        if at_cas {
            // which NaN an operation produces is not specified (the model uses one default NaN, the hardware propagates
            // payloads): when both the value the closure was evaluated on and the cell are NaNs, whether the bits are
            // equal — CAS success or one more retry — is outside the model; the native oracles below use the real bits
            if gauge && seen[t].map_or(false, |b| f64::from_bits(b).is_nan()) && f64::from_bits(cur).is_nan() {
                nan_cas = true;
            }
            // the CAS must succeed exactly when the cell still holds the bits the closure was evaluated on
            let expect_ok = seen[t] == Some(cur);
            if expect_ok == next_is_cas && !(run.deadlock || run.timed_out) {
                fails.push((
                    "a compare-exchange of a gauge increment/decrement went the wrong way: it must succeed exactly when the cell still holds the bits the update was computed from".to_string(),
                    format!("thread {} grant {}: computed from {:?}, cell {:016x}, {}", t, toks.len(), seen[t].map(|b| format!("{:016x}", b)), cur, if next_is_cas { "retried" } else { "took effect" }),
                ));
            }
        }
        if next_is_cas {
            seen[t] = Some(cur);
            toks.push("l".to_string());
            continue;
        }
        let k = done[t];
        if k >= progs[t].len() || k >= recs[t].len() {
            toks.push("-".to_string());
            continue;
        }
        done[t] += 1;
        let (live, op) = progs[t][k];
        if !live {
            if recs[t][k] != cur {
                fails.push(("a call through a no-op handle changed the cell".to_string(), format!("thread {} call {}: {:016x} -> {:016x}", t, k, cur, recs[t][k])));
            }
            toks.push("n".to_string());
            continue;
        }
        if op.is_cas_loop() != at_cas {
            // not a failure of the property: the code no longer has the step granularity of the model (hook-C04 gone, or an
            // update rewritten without `fetch_update`) — `src_cas_yield_points` and the model line below say so
            missing_yield += 1;
        }
        let want = op.apply_native(cur);
        let got = recs[t][k];
        if !same_cell(gauge, got, want) {
            fails.push((
                "an update was not applied to the value current at its instant (lost, doubled or computed from a stale value)".to_string(),
                format!("thread {} call {} {:?}: cell before {:016x}, after {:016x}, expected {:016x}", t, k, op, cur, got, want),
            ));
        }
        match op {
            SOp::Inc(v) => wrapped |= cur.checked_add(v).is_none(),
            SOp::Abs(v) => max_abs = Some(max_abs.map_or(v, |m| m.max(v))),
            _ => {}
        }
        if !gauge && !wrapped && (got < cur || max_abs.map_or(false, |m| got < m)) {
            fails.push(("a counter decreased, or is below an absolute value given, although no increment wrapped".to_string(), format!("{:016x} -> {:016x}, largest absolute {:?}", cur, got, max_abs)));
        }
        cur = got;
        n_commits += 1;
        seen[t] = None;
        toks.push(format!("c{}", cell_tok(gauge, got)));
    }
    if !same_cell(gauge, fin, cur) && !(run.deadlock || run.timed_out) {
        fails.push(("the final cell is not what the last update left".to_string(), format!("{:016x} vs {:016x}", fin, cur)));
    }
    let n_eff: usize = progs.iter().flatten().filter(|(l, _)| *l).count();
    if n_commits != n_eff && !(run.deadlock || run.timed_out) {
        fails.push(("the number of updates that took effect is not the number of calls through live handles".to_string(), format!("{} vs {}", n_commits, n_eff)));
    }
    drop(keep_c);
    drop(keep_g);
    SchedOutcome { taken, toks, n_commits, fin, fails, missing_yield, nan_cas }
}

/// run + model line + oracles
fn sched_case(out: &mut Out, gauge: bool, c0: u64, progs: &[Vec<(bool, SOp)>], schedule: &[usize]) -> SchedOutcome {
    let o = sched_run(gauge, c0, progs, schedule);
    let ptoks: Vec<Vec<String>> = progs.iter().map(|p| p.iter().map(|(l, op)| op.tok(*l)).collect()).collect();
    if o.nan_cas {
        out.count("sched.gauge.runs_not_compared_with_the_model(CAS_of_a_NaN_on_a_NaN_cell)");
    } else {
        out.op(
            &format!("atomics {} {:x} {} {}", if gauge { "ctrace" } else { "ctraceu" }, c0, progs_tok(&ptoks), sched_tok(&o.taken)),
            &format!("t={} n={} cell={} done=1", if o.toks.is_empty() { "-".to_string() } else { o.toks.join(".") }, o.n_commits, cell_tok(gauge, o.fin)),
        );
    }
    for (w, d) in &o.fails {
        out.oracle_fail(w, &format!("{} | c0 {:016x} progs {} schedule {}", d, c0, progs_tok(&ptoks), sched_tok(&o.taken)));
    }
    let retries = o.toks.iter().filter(|t| *t == "l").count();
    let cas_calls = progs.iter().flatten().filter(|(l, op)| *l && op.is_cas_loop()).count();
    out.count(if gauge { "sched.gauge.runs" } else { "sched.counter.runs" });
    if o.missing_yield > 0 {
        out.count("sched.runs_with_an_update_not_at_its_yield_point");
    }
    out.count_n("sched.cas.retries", retries.saturating_sub(cas_calls) as u64);
    if retries > cas_calls {
        out.count("sched.gauge.runs_with_a_failed_cas");
    }
    if progs.iter().filter(|p| p.iter().any(|(l, _)| *l)).count() >= 2 {
        out.nontrivial();
    }
    o
}

/// a gauge operand for the scheduled races: non-dyadic decimals, values near `near` (so sums round), ±0.0, NaN, ±∞,
/// subnormals, huge values, and the exact negation of an earlier operand (cancellation to ±0.0)
fn sched_f64(r: &mut Rng, near: f64) -> f64 {
    match r.below(10) {
        0 | 1 => *r.pick(&[0.1, 0.2, 0.3, -0.1, 1.0 / 3.0, 2.0 / 3.0, 1e-17, 1e17, 0.7, -0.30000000000000004, 1.1, 2.675]),
        2 => *r.pick(&[0.0, -0.0, -0.0, f64::NAN, f64::INFINITY, f64::NEG_INFINITY]),
        3 => special_f64(r),
        4 => near,
        5 => -near,
        _ => near_f64(r, near),
    }
}

fn gen_sched_progs(r: &mut Rng, gauge: bool) -> (u64, Vec<Vec<(bool, SOp)>>) {
    let nt = *r.pick(&[2usize, 2, 3, 3, 4]);
    let (c0, mut near) = if gauge {
        let v = match r.below(5) {
            0 => 0.0,
            1 => -0.0,
            2 => special_f64(r),
            _ => sched_f64(r, 0.1),
        };
        (v.to_bits(), if v.is_finite() && v != 0.0 { v } else { 0.1 })
    } else {
        (u64_class(r), 0.0)
    };
    let mut progs = vec![];
    for _ in 0..nt {
        let n = r.range(1, if nt == 2 { 4 } else { 3 });
        let mut p = vec![];
        for _ in 0..n {
            let live = !r.chance(1, 12);
            let op = if gauge {
                let v = sched_f64(r, near);
                if v.is_finite() && v != 0.0 && r.chance(1, 2) {
                    near = v;
                }
                match r.below(10) {
                    0..=2 => SOp::GSet(v),
                    3..=6 => SOp::GInc(v),
                    _ => SOp::GDec(v),
                }
            } else if r.chance(2, 3) {
                SOp::Inc(u64_class(r))
            } else {
                SOp::Abs(u64_class(r))
            };
            p.push((live, op));
        }
        progs.push(p);
    }
    (c0, progs)
}

/// a schedule: mostly fair random, now and then bursts of one thread, or "everybody loads first" (round-robin
/// prefix: every CAS loop has loaded before the first CAS is tried)
fn gen_schedule(r: &mut Rng, nt: usize, total: usize) -> Vec<usize> {
    let len = 3 * total + 4;
    let mut s = vec![];
    if r.chance(1, 3) {
        s.extend(0..nt);
    }
    while s.len() < len {
        let t = r.below(nt);
        let burst = if r.chance(1, 4) { r.range(2, 4) } else { 1 };
        for _ in 0..burst {
            s.push(t);
        }
    }
    s
}

fn gen_sched(r: &mut Rng, out: &mut Out) {
    let gauge = !r.chance(1, 4);
    let (c0, progs) = gen_sched_progs(r, gauge);
    let total: usize = progs.iter().map(|p| p.len()).sum();
    for _ in 0..4 {
        let sch = gen_schedule(r, progs.len(), total);
        sched_case(out, gauge, c0, &progs, &sch);
    }
}

/// every schedule of a small configuration on the real code, each compared with the model; returns the number of runs
fn sched_enumerate(out: &mut Out, gauge: bool, c0: u64, progs: &[Vec<(bool, SOp)>], limit: usize) -> usize {
    // depth-first over the runnable sets, by replay (`sched::enumerate`'s strategy, with the model line per run)
    let nt = progs.len();
    let mut prefix: Vec<usize> = vec![];
    let mut runs = 0;
    loop {
        let o = sched_case(out, gauge, c0, progs, &prefix);
        runs += 1;
        if runs >= limit || !o.fails.is_empty() {
            return runs;
        }
        // runnable at position i = not yet returned there = granted at or after i in this (complete) run: there are no
        // wait loops in these bodies, and a run ends only when every thread has returned
        let taken = o.taken;
        let mut i = taken.len();
        let mut next = None;
        while i > 0 {
            i -= 1;
            if let Some(alt) = (0..nt).filter(|c| *c > taken[i] && taken[i..].contains(c)).min() {
                next = Some((i, alt));
                break;
            }
        }
        match next {
            None => return runs,
            Some((i, alt)) => {
                prefix = taken[..i].to_vec();
                prefix.push(alt);
            }
        }
    }
}

fn sched_corpus(out: &mut Out, thorough: bool) {
    let l = |op: SOp| (true, op);
    // the race of `C04.cas_retry_witness`: A loads 0.1, B's set(-0.0) takes effect, A's CAS fails and retries
    out.case("corpus: scheduled gauge race — set(-0.0) between the load and the CAS of an increment");
    sched_case(out, true, 0.1f64.to_bits(), &[vec![l(SOp::GInc(0.1))], vec![l(SOp::GSet(-0.0)), l(SOp::GInc(0.2))]], &[0, 1, 0, 0, 1, 1, 1]);
    // +0.0 -> -0.0 between load and CAS: equal as f64, different bits: the CAS must fail and the sum be -0.0 + -0.0 = -0.0
    out.case("corpus: scheduled gauge race — the cell flips from +0.0 to -0.0 under a pending increment by -0.0");
    sched_case(out, true, 0, &[vec![l(SOp::GInc(-0.0))], vec![l(SOp::GSet(-0.0))]], &[0, 1, 0, 0]);
    // NaN cell: the CAS compares bits, so an increment of a NaN cell succeeds at once (a float comparison would spin)
    out.case("corpus: scheduled gauge race — NaN cell");
    sched_case(out, true, f64::NAN.to_bits(), &[vec![l(SOp::GInc(1.5)), l(SOp::GDec(0.1))], vec![l(SOp::GSet(f64::NAN)), l(SOp::GInc(0.1))]], &[0, 1, 0, 0, 1, 0, 1, 1]);
    // the failed CAS observes a NaN: the retry must compute NaN + 0.2 = NaN, then 1.0 - 0.1 after the next interference
    out.case("corpus: scheduled gauge race — set(NaN), then set(1.0), under a pending increment and decrement");
    sched_case(out, true, 0.1f64.to_bits(), &[vec![l(SOp::GInc(0.2))], vec![l(SOp::GSet(f64::NAN)), l(SOp::GSet(1.0))], vec![l(SOp::GDec(0.1))]], &[0, 2, 1, 0, 2, 0, 1, 2, 2]);
    // ABA: the cell is set away and back between load and CAS: the CAS succeeds, on the current value
    out.case("corpus: scheduled gauge race — ABA (set away and back under a pending decrement)");
    sched_case(out, true, 0.3f64.to_bits(), &[vec![l(SOp::GDec(0.1))], vec![l(SOp::GSet(7.0)), l(SOp::GSet(0.3))]], &[0, 1, 1, 0, 0]);
    // three CAS loops that all loaded the same value: two of them must retry, the sum rounds at every step
    out.case("corpus: scheduled gauge race — three increments loaded the same value");
    sched_case(out, true, 0.1f64.to_bits(), &[vec![l(SOp::GInc(0.2))], vec![l(SOp::GInc(0.3))], vec![l(SOp::GDec(1e-17)), (false, SOp::GSet(9.0))]], &[0, 1, 2, 2, 1, 0, 1, 0, 0, 2, 2]);
    out.case("corpus: scheduled counter race — absolute between wrapping increments");
    sched_case(out, false, u64::MAX - 1, &[vec![l(SOp::Inc(1)), l(SOp::Inc(1))], vec![l(SOp::Abs(5)), l(SOp::Abs(u64::MAX))], vec![(false, SOp::Inc(9)), l(SOp::Inc(7))]], &[0, 1, 2, 0, 1, 2]);
    // every schedule of small configurations
    let configs: Vec<(bool, u64, Vec<Vec<(bool, SOp)>>)> = vec![
        (true, 0.1f64.to_bits(), vec![vec![l(SOp::GInc(0.2))], vec![l(SOp::GSet(-0.0)), l(SOp::GDec(0.3))]]),
        (true, 0, vec![vec![l(SOp::GInc(0.1)), l(SOp::GDec(0.1))], vec![l(SOp::GInc(1e17))]]),
        (true, (-0.0f64).to_bits(), vec![vec![l(SOp::GInc(-0.0))], vec![l(SOp::GSet(0.0))], vec![l(SOp::GDec(f64::NAN))]]),
        (false, u64::MAX, vec![vec![l(SOp::Inc(1)), l(SOp::Abs(3))], vec![l(SOp::Abs(2)), l(SOp::Inc(u64::MAX))]]),
        // thorough only: three threads, two calls each (thousands of schedules)
        (true, 0.1f64.to_bits(), vec![vec![l(SOp::GInc(0.2)), l(SOp::GDec(0.3))], vec![l(SOp::GSet(-0.0)), l(SOp::GInc(0.1))], vec![l(SOp::GDec(1e-17)), l(SOp::GSet(0.7))]]),
        (true, 0, vec![vec![l(SOp::GInc(0.1)), l(SOp::GInc(0.2))], vec![l(SOp::GDec(0.3)), (false, SOp::GSet(5.0))], vec![l(SOp::GInc(f64::INFINITY)), l(SOp::GSet(-0.1))]]),
        (false, 5, vec![vec![l(SOp::Inc(u64::MAX - 5)), l(SOp::Abs(3))], vec![l(SOp::Abs(9)), l(SOp::Inc(1))], vec![l(SOp::Inc(2)), l(SOp::Abs(u64::MAX))]]),
    ];
    for (k, (gauge, c0, progs)) in configs.iter().enumerate() {
        if !thorough && k >= 4 {
            break;
        }
        out.case(&format!("corpus: every schedule of small configuration {}", k));
        let runs = sched_enumerate(out, *gauge, *c0, progs, if thorough { 15000 } else { 400 });
        out.count_n("sched.enumerated.runs", runs as u64);
    }
}

// ---------------------------------------------------------------------------------------------
// (round 4) type probes: safe programs that must NOT compile against the crate as built

struct TProbe {
    name: &'static str,
    what: &'static str,
    body: &'static str,
}

const TPROBE_CONTROL: &str = "use metrics::{Counter, Gauge, Histogram};\nuse std::sync::Arc;\nuse metrics::atomics::AtomicU64;\nfn share<T: Clone + Send + Sync + 'static>(_: &T) {}\npub fn f(c: &Counter, g: &Gauge, h: &Histogram) { share(c); share(g); share(h); c.increment(1u64); c.absolute(u64::MAX); g.set(1u32); g.increment(1.5f32); g.decrement(std::time::Duration::from_secs(1)); h.record(-1i8); h.record_many(2u16, usize::MAX); let a = Arc::new(AtomicU64::new(0)); let _ = (Counter::from_arc(a.clone()), Gauge::from_arc(Arc::new(a.clone())), Counter::from(a)); }\n";

const TPROBES: &[TProbe] = &[
    TProbe {
        name: "Gauge::set(u64)",
        what: "a u64 gauge argument compiles although no conversion to f64 is documented for it (it cannot be lossless)",
        body: "pub fn f(g: &metrics::Gauge) { g.set(1u64); }",
    },
    TProbe {
        name: "Histogram::record(usize)",
        what: "a usize histogram argument compiles although no conversion to f64 is documented for it",
        body: "pub fn f(h: &metrics::Histogram) { h.record(1usize); }",
    },
    TProbe {
        name: "Gauge::increment(i64)",
        what: "an i64 gauge argument compiles although no conversion to f64 is documented for it",
        body: "pub fn f(g: &metrics::Gauge) { g.increment(-1i64); }",
    },
    TProbe {
        name: "Counter::from_arc(non-Sync storage)",
        what: "a counter handle accepts a storage that is not Sync although handles are used from any thread",
        body: "struct S(std::cell::Cell<u64>);\nimpl metrics::CounterFn for S { fn increment(&self, v: u64) { self.0.set(v) } fn absolute(&self, v: u64) { self.0.set(v) } }\npub fn f() -> metrics::Counter { metrics::Counter::from_arc(std::sync::Arc::new(S(std::cell::Cell::new(0)))) }",
    },
];

fn type_probes(out: &mut Out) {
    let dir = out.dir.join("probes");
    std::fs::create_dir_all(&dir).expect("probe dir");
    let pre = "#![allow(dead_code, unused_variables)]\n";
    let control = crate::c01::rustc_check(&dir, "c04probe_control", &format!("{}{}", pre, TPROBE_CONTROL));
    if let Err(e) = &control {
        panic!("C04 type probes: the LEGAL control program does not compile — harness/toolchain problem, or the handle API changed:\n{}", e);
    }
    let results: Vec<Result<(), String>> = std::thread::scope(|s| {
        let hs: Vec<_> = TPROBES
            .iter()
            .enumerate()
            .map(|(i, p)| {
                let dir = dir.clone();
                s.spawn(move || crate::c01::rustc_check(&dir, &format!("c04probe{}", i), &format!("{}{}\n", pre, p.body)))
            })
            .collect();
        hs.into_iter().map(|h| h.join().expect("probe thread")).collect()
    });
    for (p, body) in TPROBES.iter().zip(results) {
        out.case(&format!("type probe: {}", p.name));
        out.count("type_probe");
        match &body {
            Ok(()) => out.oracle_fail(p.what, &format!("rustc accepts: {}", p.body)),
            Err(e) if e.contains("[E0277]") => out.count("type_probe.rejected"),
            Err(e) => panic!("type probe `{}`: rustc refused the program for an unexpected reason (expected E0277):\n{}", p.name, e),
        }
    }
}

fn corpus(out: &mut Out) {
    // counters: wrap-around sums, u64::MAX, late small absolute, absolute after a wrap, no-op handles
    out.case("corpus: counter wrap");
    seq_counter(out, 3, 3, true, &[(0, COp::Inc(u64::MAX)), (1, COp::Inc(7)), (3, COp::Inc(1000)), (2, COp::Inc(2)), (0, COp::Inc(5))]);
    out.case("corpus: counter absolute late and small");
    seq_counter(out, 0, 2, false, &[(0, COp::Abs(100)), (1, COp::Inc(3)), (1, COp::Abs(40)), (0, COp::Abs(103)), (1, COp::Abs(u64::MAX)), (0, COp::Abs(0))]);
    out.case("corpus: counter absolute then wrapping increment");
    seq_counter(out, 0, 1, false, &[(0, COp::Abs(u64::MAX)), (0, COp::Inc(1)), (0, COp::Abs(5)), (0, COp::Inc(0))]);
    out.case("corpus: counter only no-op handles");
    seq_counter(out, 9, 0, true, &[(0, COp::Inc(u64::MAX)), (0, COp::Abs(u64::MAX))]);
    out.case("corpus: counter through Arc<Arc<AtomicU64>>");
    seq_counter(out, u64::MAX - 1, 4, false, &[(3, COp::Inc(1)), (3, COp::Inc(1)), (3, COp::Abs(7)), (2, COp::Inc(u64::MAX))]);
    // gauges
    out.case("corpus: gauge exact");
    {
        let script: Vec<(usize, GKind, Arg)> = vec![
            (0, GKind::Inc, Arg::F64(1.5)),
            (1, GKind::Set, Arg::F64(8.0)),
            (0, GKind::Dec, Arg::F64(0.25)),
            (2, GKind::Inc, Arg::U8(255)),
            (1, GKind::Dec, Arg::I32(i32::MIN)),
            (3, GKind::Inc, Arg::F64(5.0)),
            (0, GKind::Inc, Arg::Dur(Duration::new(3, 500_000_000))),
            (2, GKind::Set, Arg::F64(-0.0)),
            (2, GKind::Set, Arg::F64(f64::from_bits(1))),
            (1, GKind::Set, Arg::F32(0.1)),
            (0, GKind::Set, Arg::U32(u32::MAX)),
            (0, GKind::Dec, Arg::U32(u32::MAX)),
            (0, GKind::Dec, Arg::F64(0.0)),
        ];
        let mut i = 0;
        seq_gauge(out, 0.0, 3, true, script.len(), GMode::Exact, &mut |_| {
            i += 1;
            script[i - 1]
        });
    }
    out.case("corpus: gauge NaN and infinities");
    {
        let script: Vec<(usize, GKind, Arg)> = vec![
            (0, GKind::Inc, Arg::F64(f64::INFINITY)),
            (1, GKind::Inc, Arg::F64(1.0)),
            (0, GKind::Dec, Arg::F64(f64::INFINITY)),
            (1, GKind::Inc, Arg::F64(1.0)),
            (1, GKind::Set, Arg::F64(f64::MAX)),
            (0, GKind::Dec, Arg::F64(f64::INFINITY)),
            (0, GKind::Dec, Arg::F64(f64::NEG_INFINITY)),
            (0, GKind::Inc, Arg::F64(f64::NEG_INFINITY)),
            (1, GKind::Set, Arg::F32(f32::NEG_INFINITY)),
            (1, GKind::Inc, Arg::F64(f64::NAN)),
            (1, GKind::Set, Arg::F64(0.0)),
            (0, GKind::Dec, Arg::F64(f64::NAN)),
        ];
        let mut i = 0;
        seq_gauge(out, 0.0, 2, false, script.len(), GMode::Classes, &mut |_| {
            i += 1;
            script[i - 1]
        });
    }
    out.case("corpus: gauge IEEE operands (-0.0, 0.1, subnormals, ties, overflow) through Arc<Arc<AtomicU64>>");
    {
        let script: Vec<(usize, GKind, Arg)> = vec![
            (3, GKind::Set, Arg::F64(-0.0)),
            (3, GKind::Inc, Arg::F64(-0.0)),                   // -0 + -0 = -0
            (3, GKind::Dec, Arg::F64(0.0)),                    // -0 - +0 = -0
            (3, GKind::Inc, Arg::F64(0.0)),                    // -0 + +0 = +0
            (3, GKind::Dec, Arg::F64(0.0)),                    // +0 - +0 = +0
            (0, GKind::Inc, Arg::F64(0.1)),
            (3, GKind::Inc, Arg::F64(0.2)),                    // 0.30000000000000004
            (1, GKind::Dec, Arg::F64(0.30000000000000004)),    // exact cancellation: +0
            (3, GKind::Dec, Arg::F64(5e-324)),                 // smallest subnormal, negative
            (3, GKind::Inc, Arg::F32(1.0e-45)),                // f32 subnormal, widened
            (2, GKind::Set, Arg::F64(9007199254740992.0)),     // 2^53
            (3, GKind::Inc, Arg::F64(1.0)),                    // tie → even (stays 2^53)
            (3, GKind::Inc, Arg::F64(3.0)),                    // 2^53+3 → 2^53+4
            (3, GKind::Set, Arg::F64(f64::MAX)),
            (3, GKind::Inc, Arg::F64(f64::MAX)),               // overflow → +inf
            (3, GKind::Dec, Arg::F64(f64::INFINITY)),          // inf - inf = NaN
            (0, GKind::Set, Arg::F64(1e300)),
            (3, GKind::Dec, Arg::F64(-1e300)),                 // 2e300
            (3, GKind::Set, Arg::F64(f64::MIN_POSITIVE)),
            (3, GKind::Dec, Arg::F64(5e-324)),                 // normal → largest subnormal
        ];
        let mut i = 0;
        seq_gauge(out, 0.0, 4, false, script.len(), GMode::Ieee, &mut |_| {
            i += 1;
            script[i - 1]
        });
    }
    // histograms
    out.case("corpus: record_many counts");
    seq_hist(
        out,
        0,
        &[
            (true, Arg::F64(2.5), Some(0)),
            (true, Arg::F64(2.5), Some(1)),
            (true, Arg::F64(2.5), Some(2)),
            (true, Arg::U8(9), Some(65)),
            (true, Arg::F64(f64::NAN), Some(1000)),
            (false, Arg::F64(1.0), Some(1000)),
            (true, Arg::F64(2.5), None),
        ],
    );
    out.case("corpus: record_many through Arc<Arc<Arc<Log>>>");
    seq_hist(out, 2, &[(true, Arg::I16(-7), Some(65)), (true, Arg::Dur(Duration::new(1, 500_000_000)), Some(2)), (true, Arg::F32(0.1), None), (true, Arg::F64(-0.0), Some(3))]);
    conv_corpus(out);
    batch_corpus(out);
}

/// (round 5, after seed C04-10) "handles without storage have no effect" includes time: an operation on a no-op handle
/// returns at once whatever its arguments — `Histogram::noop().record_many(v, usize::MAX)` must not loop `usize::MAX` times
/// (a looping default behind the no-op handle never returns). Run on a helper thread with a generous bound; the thread
/// is abandoned if it does not come back (it cannot be cancelled).
fn noop_returns_at_once(out: &mut Out) {
    out.case("noop handles return at once");
    let (tx, rx) = std::sync::mpsc::channel();
    std::thread::Builder::new()
        .name("c04-noop".into())
        .spawn(move || {
            let t0 = std::time::Instant::now();
            Histogram::noop().record_many(1.5, usize::MAX);
            Histogram::noop().record_many(f64::NAN, usize::MAX / 3);
            Histogram::noop().record(2.0);
            Counter::noop().increment(u64::MAX);
            Counter::noop().absolute(u64::MAX);
            Gauge::noop().set(f64::INFINITY);
            Gauge::noop().increment(1.0);
            Gauge::noop().decrement(1.0);
            let _ = tx.send(t0.elapsed());
        })
        .expect("spawn");
    out.count("noop: huge-count operations on no-op handles");
    match rx.recv_timeout(std::time::Duration::from_secs(20)) {
        Ok(_) => {}
        Err(_) => out.oracle_fail(
            "an operation on a no-op handle did not return (handles without storage must have no effect — not a loop over the count either)",
            "Histogram::noop().record_many(1.5, usize::MAX) and friends on a helper thread: nothing came back within 20 s",
        ),
    }
}

pub fn run(cfg: &Cfg, out: &mut Out) {
    noop_returns_at_once(out);
    let prev_hook = std::panic::take_hook();
    std::panic::set_hook(Box::new(|_| {})); // panics are caught and reported as oracle failures
    type_probes(out);
    corpus(out);
    sched_corpus(out, cfg.thorough);
    let root = Rng::new(cfg.seed);
    let conc_len = if cfg.thorough { 2500 } else { 1500 };
    for i in 0..cfg.cases {
        let mut r = root.fork(i as u64);
        if i % 5 == 2 {
            // round 4: an extra scheduled race (3 schedules of one configuration) every fifth case
            let mut rs = root.fork(1_000_000 + i as u64);
            out.case(&format!("seed={} i={} scheduled", cfg.seed, i));
            gen_sched(&mut rs, out);
        }
        out.case(&format!("seed={} i={}", cfg.seed, i));
        match i % 20 {
            0..=3 => gen_seq_counter(&mut r, out),
            4..=5 => gen_seq_gauge_exact(&mut r, out),
            6..=7 => gen_seq_gauge_ieee(&mut r, out),
            8..=9 => gen_seq_gauge_classes(&mut r, out),
            10..=12 => gen_seq_hist(&mut r, out),
            13 if i % 40 == 33 => gen_update_value(&mut r, out),
            13 => {
                out.count("seq.conv.random");
                for _ in 0..8 {
                    let a = match r.below(4) {
                        0 => Arg::Dur(Duration::new(r.next() >> r.below(64), r.below(1_000_000_000) as u32)),
                        1 => Arg::F32(f32::from_bits({
                            let b = r.next() as u32;
                            if (b >> 23) & 0xff == 0xff && b & 0x7f_ffff != 0 {
                                0x7fc0_0000
                            } else {
                                b
                            }
                        })),
                        2 => Arg::I32(r.next() as i32),
                        _ => hist_arg(&mut r),
                    };
                    conv_one(out, a);
                }
            }
            14 => conc_counter(&mut r, out, CKind::Inc, conc_len),
            15 => conc_counter(&mut r, out, CKind::Abs, conc_len),
            16 => {
                if i % 40 == 16 {
                    conc_counter(&mut r, out, CKind::Mixed, conc_len)
                } else {
                    conc_counter_race(&mut r, out, conc_len)
                }
            }
            17 => conc_gauge(&mut r, out, conc_len),
            18 => {
                if i % 40 == 18 {
                    conc_gauge(&mut r, out, conc_len)
                } else {
                    conc_gauge_set_vs_inc(&mut r, out, conc_len)
                }
            }
            _ => {
                if i % 40 == 19 {
                    conc_gauge_set(&mut r, out, conc_len)
                } else {
                    conc_hist(&mut r, out, conc_len)
                }
            }
        }
    }
    std::panic::set_hook(prev_hook);
}
