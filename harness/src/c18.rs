//! C18 — the scrape endpoint serves the current rendering and enforces its allowlist.
//!
//! Every case builds a REAL listener (`PrometheusBuilder::with_http_listener(..).add_allowed_address(..)…build()`)
//! on a tokio runtime owned by the case, then talks raw HTTP/1.1 to it from sockets bound to chosen source
//! addresses (Linux routes all of 127.0.0.0/8 to `lo`, so any 127.x.y.z can be a peer; `::1` and the
//! host's global addresses are used when the sandbox has them).
//!
//! model ops (component `allow`, per-case state):
//!   allow parse <fam>/<addr>/<plen|~>        → ok | err          (add_allowed_address accepts the entry?)
//!   allow new <~ | entry,entry,…>            → ok | builderr     (listener configured with these entries)
//!   allow inc <n>                            → ok                (marker counter += n)
//!   allow req <fam>/<addr> <hex target>      → 403 empty | 200 ok | 200 render <marker value>
//!   allow fault <kind> <fam>/<addr>          → ok                (garbage / half-open / reset / … connection)
//! `<addr>` is the address as a decimal number, the peer is the address the listener's socket reports.
//!
//! implementation-side oracles (independent of the model; plain integer arithmetic on the entries the
//! test generated): membership ⇒ 403+empty+no metric text / 200+"OK" / 200+body == handle.render() with
//! the marker at its current value and accepted by the strict exposition reader; every documented entry
//! is accepted; after any fault sequence an allowed client is answered within the timeout.
use crate::expo;
use crate::prom::canonical;
use crate::util::*;
use metrics::{Key, Label, Recorder};
use metrics_exporter_prometheus::{PrometheusBuilder, PrometheusHandle};
use std::io::{Read, Write};
use std::net::{IpAddr, Ipv4Addr, Ipv6Addr, SocketAddr, TcpStream};
use std::time::{Duration, Instant};

static METADATA: metrics::Metadata =
    metrics::Metadata::new(module_path!(), metrics::Level::INFO, Some(module_path!()));

const CONNECT_TIMEOUT: Duration = Duration::from_secs(3);
const IO_TIMEOUT: Duration = Duration::from_secs(4);
const MARKER: &str = "c18_marker";
/// well-formed requests that got no answer; after `GIVE_UP` of them the run stops (a hung listener is a reported
/// failure, not a hung check)
static UNANSWERED: std::sync::atomic::AtomicUsize = std::sync::atomic::AtomicUsize::new(0);
const GIVE_UP: usize = 6;
fn gave_up() -> bool {
    UNANSWERED.load(std::sync::atomic::Ordering::Relaxed) >= GIVE_UP
}

// ---------------------------------------------------------------------------------------------
// addresses, entries, the arithmetic oracle

#[derive(Clone, Copy, PartialEq, Eq, Debug, PartialOrd, Ord)]
struct Addr {
    v6: bool,
    bits: u128,
}

impl Addr {
    fn v4(a: u32) -> Addr {
        Addr { v6: false, bits: a as u128 }
    }
    fn v6(a: u128) -> Addr {
        Addr { v6: true, bits: a }
    }
    fn ip(&self) -> IpAddr {
        if self.v6 {
            IpAddr::V6(Ipv6Addr::from(self.bits))
        } else {
            IpAddr::V4(Ipv4Addr::from(self.bits as u32))
        }
    }
    fn from_ip(ip: IpAddr) -> Addr {
        match ip {
            IpAddr::V4(a) => Addr::v4(u32::from(a)),
            IpAddr::V6(a) => Addr::v6(u128::from(a)),
        }
    }
    fn tok(&self) -> String {
        format!("{}/{}", if self.v6 { 6 } else { 4 }, self.bits)
    }
    fn width(&self) -> u32 {
        if self.v6 {
            128
        } else {
            32
        }
    }
    /// what a dual-stack (`[::]`) listener reports for an IPv4 client
    fn mapped(&self) -> Addr {
        debug_assert!(!self.v6);
        Addr::v6(0xffff_0000_0000u128 | self.bits)
    }
}

/// One `add_allowed_address` argument: plain address (`plen == None`) or CIDR.
#[derive(Clone, Debug)]
struct Entry {
    addr: Addr,
    plen: Option<u32>,
}

impl Entry {
    fn text(&self) -> String {
        match self.plen {
            None => format!("{}", self.addr.ip()),
            Some(p) => format!("{}/{}", self.addr.ip(), p),
        }
    }
    fn tok(&self) -> String {
        match self.plen {
            None => format!("{}/~", self.addr.tok()),
            Some(p) => format!("{}/{}", self.addr.tok(), p),
        }
    }
    /// documented syntax: an IP address, or address/prefix with prefix ≤ width
    fn documented(&self) -> bool {
        self.plen.map_or(true, |p| p <= self.addr.width())
    }
    /// ORACLE: does the network this entry denotes contain `peer`?  u128 masks, nothing else.
    fn contains(&self, peer: &Addr) -> bool {
        if self.addr.v6 != peer.v6 {
            return false;
        }
        let w = self.addr.width();
        let p = self.plen.unwrap_or(w);
        if p == 0 {
            return true;
        }
        let host_bits = w - p;
        let mask: u128 = if host_bits == 0 { !0u128 } else { !((1u128 << host_bits) - 1) };
        (self.addr.bits & mask) == (peer.bits & mask)
    }
    /// first / last address of the denoted block
    fn lo_hi(&self) -> (u128, u128) {
        let w = self.addr.width();
        let p = self.plen.unwrap_or(w).min(w);
        let host_bits = w - p;
        let hostmask: u128 = if host_bits >= 128 { !0u128 } else { (1u128 << host_bits) - 1 };
        (self.addr.bits & !hostmask, self.addr.bits | hostmask)
    }
}

fn oracle_allowed(list: &Option<Vec<Entry>>, peer: &Addr) -> bool {
    match list {
        None => true,
        Some(es) => es.iter().any(|e| e.contains(peer)),
    }
}

/// ORACLE for a connection: `src` is the address the client bound, `seen` what the listener's socket reports
/// (they differ only for an IPv4 client of a dual-stack listener: `seen` = ::ffff:src).  The peer is inside the
/// allowlist when either way of writing its address lies in a listed network.
fn oracle_allowed2(list: &Option<Vec<Entry>>, src: &Addr, seen: &Addr) -> bool {
    oracle_allowed(list, src) || oracle_allowed(list, seen)
}

// ---------------------------------------------------------------------------------------------
// raw HTTP/1.1 client over sockets bound to a chosen source address

fn connect_from(src: Option<IpAddr>, dst: SocketAddr) -> std::io::Result<TcpStream> {
    use socket2::{Domain, SockAddr, Socket, Type};
    let dom = if dst.is_ipv6() { Domain::IPV6 } else { Domain::IPV4 };
    let s = Socket::new(dom, Type::STREAM, None)?;
    if let Some(ip) = src {
        s.bind(&SockAddr::from(SocketAddr::new(ip, 0)))?;
    }
    s.connect_timeout(&SockAddr::from(dst), CONNECT_TIMEOUT)?;
    let t: TcpStream = s.into();
    t.set_read_timeout(Some(IO_TIMEOUT))?;
    t.set_write_timeout(Some(IO_TIMEOUT))?;
    t.set_nodelay(true)?;
    Ok(t)
}

/// RST instead of FIN on close
fn set_reset_on_close(t: &TcpStream) {
    let s = socket2::SockRef::from(t);
    let _ = s.set_linger(Some(Duration::from_secs(0)));
}

#[derive(Debug)]
struct Resp {
    status: u16,
    head: String,
    body: Vec<u8>,
}

/// reads exactly one response (status line, headers, Content-Length body); hard deadline
/// `carry` holds bytes already received that belong to the next response on the same connection
fn read_response_carry(t: &mut TcpStream, deadline: Instant, carry: &mut Vec<u8>) -> Result<Resp, String> {
    let mut buf: Vec<u8> = std::mem::take(carry);
    let mut chunk = [0u8; 8192];
    let head_end;
    loop {
        if let Some(p) = find(&buf, b"\r\n\r\n") {
            head_end = p + 4;
            break;
        }
        if Instant::now() > deadline {
            return Err("timeout waiting for response head".into());
        }
        match t.read(&mut chunk) {
            Ok(0) => return Err(format!("connection closed after {} bytes, no complete response head", buf.len())),
            Ok(n) => buf.extend_from_slice(&chunk[..n]),
            Err(e) if e.kind() == std::io::ErrorKind::Interrupted => {}
            Err(e) => return Err(format!("read error {:?}", e.kind())),
        }
    }
    let head = String::from_utf8_lossy(&buf[..head_end]).to_string();
    let mut lines = head.split("\r\n");
    let sl = lines.next().unwrap_or("");
    let mut parts = sl.split(' ');
    let ver = parts.next().unwrap_or("");
    let status: u16 = parts.next().unwrap_or("").parse().map_err(|_| format!("bad status line {:?}", sl))?;
    if !ver.starts_with("HTTP/1.") {
        return Err(format!("bad status line {:?}", sl));
    }
    let mut clen: Option<usize> = None;
    for l in lines {
        if let Some((k, v)) = l.split_once(':') {
            if k.eq_ignore_ascii_case("content-length") {
                clen = v.trim().parse().ok();
            }
            if k.eq_ignore_ascii_case("transfer-encoding") {
                return Err("unexpected transfer-encoding".into());
            }
        }
    }
    let mut body = buf[head_end..].to_vec();
    match clen {
        Some(n) => {
            while body.len() < n {
                if Instant::now() > deadline {
                    return Err("timeout waiting for response body".into());
                }
                match t.read(&mut chunk) {
                    Ok(0) => return Err("connection closed inside the body".into()),
                    Ok(k) => body.extend_from_slice(&chunk[..k]),
                    Err(e) if e.kind() == std::io::ErrorKind::Interrupted => {}
                    Err(e) => return Err(format!("read error {:?}", e.kind())),
                }
            }
            if body.len() > n {
                *carry = body.split_off(n);
            }
        }
        None => loop {
            // no length: body runs to EOF
            if Instant::now() > deadline {
                return Err("timeout waiting for EOF".into());
            }
            match t.read(&mut chunk) {
                Ok(0) => break,
                Ok(k) => body.extend_from_slice(&chunk[..k]),
                Err(e) if e.kind() == std::io::ErrorKind::Interrupted => {}
                Err(e) => return Err(format!("read error {:?}", e.kind())),
            }
        },
    }
    Ok(Resp { status, head, body })
}

fn find(h: &[u8], n: &[u8]) -> Option<usize> {
    h.windows(n.len()).position(|w| w == n)
}

fn get_request(target: &str, close: bool) -> Vec<u8> {
    format!(
        "GET {} HTTP/1.1\r\nHost: c18.test\r\nUser-Agent: mv-harness\r\n{}\r\n",
        target,
        if close { "Connection: close\r\n" } else { "" }
    )
    .into_bytes()
}

/// one well-formed GET on a fresh connection
fn scrape(src: Option<IpAddr>, dst: SocketAddr, target: &str) -> Result<Resp, String> {
    let mut t = connect_from(src, dst).map_err(|e| format!("connect: {:?} {}", e.kind(), e))?;
    t.write_all(&get_request(target, true)).map_err(|e| format!("write: {:?}", e.kind()))?;
    let mut carry = vec![];
    let r = read_response_carry(&mut t, Instant::now() + IO_TIMEOUT, &mut carry)?;
    if !carry.is_empty() {
        return Err("more body bytes than Content-Length".into());
    }
    Ok(r)
}

/// everything the peer sends back until EOF / timeout (for malformed exchanges)
fn drain(t: &mut TcpStream, max_wait: Duration) -> Vec<u8> {
    let _ = t.set_read_timeout(Some(max_wait));
    let mut buf = vec![];
    let mut chunk = [0u8; 4096];
    let end = Instant::now() + max_wait;
    while Instant::now() < end {
        match t.read(&mut chunk) {
            Ok(0) => break,
            Ok(n) => buf.extend_from_slice(&chunk[..n]),
            Err(_) => break,
        }
    }
    buf
}

// ---------------------------------------------------------------------------------------------
// the environment: which source addresses exist

struct Env {
    has_v6_lo: bool,
    global_v4: Option<u32>,
    global_v6: Option<u128>,
}

fn probe_env() -> Env {
    let has_v6_lo = std::net::TcpListener::bind("[::1]:0").is_ok();
    let global_v4 = std::net::UdpSocket::bind("0.0.0.0:0")
        .and_then(|s| {
            s.connect("198.51.100.1:9")?;
            s.local_addr()
        })
        .ok()
        .and_then(|a| match a.ip() {
            IpAddr::V4(a) if !a.is_loopback() && !a.is_unspecified() => Some(u32::from(a)),
            _ => None,
        })
        .filter(|a| std::net::TcpListener::bind((Ipv4Addr::from(*a), 0)).is_ok());
    let mut global_v6 = None;
    if let Ok(s) = std::fs::read_to_string("/proc/net/if_inet6") {
        for l in s.lines() {
            let f: Vec<&str> = l.split_whitespace().collect();
            // scope 00 = global
            if f.len() >= 6 && f[3] == "00" {
                if let Ok(a) = u128::from_str_radix(f[0], 16) {
                    if std::net::TcpListener::bind((Ipv6Addr::from(a), 0)).is_ok() {
                        global_v6 = Some(a);
                        break;
                    }
                }
            }
        }
    }
    Env { has_v6_lo, global_v4, global_v6 }
}

// ---------------------------------------------------------------------------------------------
// a running listener

#[derive(Clone, Copy, PartialEq, Debug)]
enum LKind {
    /// 127.0.0.1:port
    V4Lo,
    /// 0.0.0.0:port
    V4Any,
    /// [::1]:port
    V6Lo,
    /// [::]:port, dual stack: IPv4 clients appear as ::ffff:a.b.c.d
    Dual,
}

struct Listener {
    rt: Option<tokio::runtime::Runtime>,
    port: u16,
    kind: LKind,
    handle: PrometheusHandle,
    marker: metrics::Counter,
    marker_val: u64,
    label: String,
    recorder: metrics_exporter_prometheus::PrometheusRecorder,
}

impl Drop for Listener {
    fn drop(&mut self) {
        if let Some(rt) = self.rt.take() {
            rt.shutdown_background();
        }
    }
}

fn free_port(kind: LKind) -> std::io::Result<u16> {
    let l = match kind {
        LKind::V4Lo | LKind::V4Any => std::net::TcpListener::bind("127.0.0.1:0")?,
        LKind::V6Lo | LKind::Dual => std::net::TcpListener::bind("[::1]:0")?,
    };
    Ok(l.local_addr()?.port())
}

fn start_listener(kind: LKind, entries: &Option<Vec<Entry>>, label: &str) -> Result<Listener, String> {
    let mut last = String::new();
    for _attempt in 0..25 {
        let port = free_port(kind).map_err(|e| e.to_string())?;
        let bind: SocketAddr = match kind {
            LKind::V4Lo => SocketAddr::from(([127, 0, 0, 1], port)),
            LKind::V4Any => SocketAddr::from(([0, 0, 0, 0], port)),
            LKind::V6Lo => SocketAddr::new(IpAddr::V6(Ipv6Addr::LOCALHOST), port),
            LKind::Dual => SocketAddr::new(IpAddr::V6(Ipv6Addr::UNSPECIFIED), port),
        };
        let rt = tokio::runtime::Builder::new_multi_thread()
            .worker_threads(2)
            .enable_all()
            .build()
            .map_err(|e| format!("runtime: {}", e))?;
        let mut b = PrometheusBuilder::new().with_http_listener(bind);
        if let Some(es) = entries {
            for e in es {
                b = match b.add_allowed_address(e.text()) {
                    Ok(b) => b,
                    Err(err) => return Err(format!("add_allowed_address({:?}) failed: {}", e.text(), err)),
                };
            }
        }
        let built = {
            let _g = rt.enter();
            b.build()
        };
        match built {
            Ok((recorder, exporter)) => {
                rt.spawn(exporter);
                let key = Key::from_parts(MARKER, vec![Label::new("case", label.to_string())]);
                let marker = recorder.register_counter(&key, &METADATA);
                let g = recorder.register_gauge(&Key::from_name("c18_gauge"), &METADATA);
                g.set(-1.5);
                let h = recorder.register_histogram(&Key::from_name("c18_hist"), &METADATA);
                h.record(0.25);
                h.record(4.0);
                let handle = recorder.handle();
                return Ok(Listener {
                    rt: Some(rt),
                    port,
                    kind,
                    handle,
                    marker,
                    marker_val: 0,
                    label: label.to_string(),
                    recorder,
                });
            }
            Err(e) => {
                // port raced away (EADDRINUSE) → retry with a fresh one
                last = format!("{:?}", e);
                rt.shutdown_background();
            }
        }
    }
    Err(format!("could not start a listener after 25 attempts: {}", last))
}

impl Listener {
    /// where a client with source address `src` has to connect, and what the listener will see as its peer
    fn route(&self, src: &Addr) -> Option<(SocketAddr, Addr)> {
        let is_lo4 = !src.v6 && (src.bits >> 24) == 127;
        let is_lo6 = src.v6 && src.bits == 1;
        match self.kind {
            LKind::V4Lo if is_lo4 => Some((SocketAddr::from(([127, 0, 0, 1], self.port)), *src)),
            LKind::V4Any if !src.v6 => {
                let dst = if is_lo4 { Ipv4Addr::LOCALHOST } else { Ipv4Addr::from(src.bits as u32) };
                Some((SocketAddr::new(IpAddr::V4(dst), self.port), *src))
            }
            LKind::V6Lo if is_lo6 => Some((SocketAddr::new(IpAddr::V6(Ipv6Addr::LOCALHOST), self.port), *src)),
            LKind::Dual => {
                if src.v6 {
                    let dst = if is_lo6 { Ipv6Addr::LOCALHOST } else { Ipv6Addr::from(src.bits) };
                    Some((SocketAddr::new(IpAddr::V6(dst), self.port), *src))
                } else {
                    let dst = if is_lo4 { Ipv4Addr::LOCALHOST } else { Ipv4Addr::from(src.bits as u32) };
                    Some((SocketAddr::new(IpAddr::V4(dst), self.port), src.mapped()))
                }
            }
            _ => None,
        }
    }
}

// ---------------------------------------------------------------------------------------------
// generators

const PREFIXES_V4: &[u32] = &[0, 1, 7, 8, 8, 9, 12, 16, 16, 20, 24, 24, 25, 28, 30, 31, 31, 32, 32];

fn rand_lo4(r: &mut Rng) -> u32 {
    // 127.x.y.z, biased to small and boundary components
    let comp = |r: &mut Rng| -> u32 {
        match r.below(6) {
            0 => 0,
            1 => 255,
            2 => 1,
            3 => *r.pick(&[127u32, 128, 254, 2, 63, 64]),
            _ => r.below(256) as u32,
        }
    };
    (127u32 << 24) | (comp(r) << 16) | (comp(r) << 8) | comp(r)
}

fn gen_entry_v4(r: &mut Rng, env: &Env) -> Entry {
    let addr = match r.below(12) {
        0 => 0x7f00_0001,
        1 => env.global_v4.unwrap_or(0x0a00_0001),
        2 => *r.pick(&[0x0a00_0000u32, 0xc000_0200, 0x8000_0000, 0x7e00_0000, 0, 0xffff_ffff, 0x8000_0001]),
        _ => rand_lo4(r),
    };
    let plen = match r.below(10) {
        0 | 1 | 2 => None,
        _ => Some(*r.pick(PREFIXES_V4)),
    };
    // CIDR entries: half the time written with the network address, half with host bits left set
    let mut e = Entry { addr: Addr::v4(addr), plen };
    if plen.is_some() && r.chance(1, 2) {
        e.addr.bits = e.lo_hi().0;
    }
    e
}

fn gen_entry_v6(r: &mut Rng, env: &Env) -> Entry {
    let mapped_lo = 0xffff_7f00_0000u128;
    let choices: Vec<(u128, Option<u32>)> = vec![
        (1, Some(128)),
        (1, None),
        (0, Some(0)),
        (0, Some(127)),
        (2, Some(127)),
        (mapped_lo, Some(104)),
        (mapped_lo | 1, None),
        (mapped_lo | 1, Some(128)),
        (0xffff_0000_0000u128, Some(96)),
        (env.global_v6.unwrap_or(0xfd00u128 << 112), Some(64)),
        (env.global_v6.unwrap_or(0xfd00u128 << 112), None),
        (0xfd00u128 << 112, Some(8)),
        (0xfe80u128 << 112, Some(10)),
        (1u128 << 127, Some(1)),
    ];
    let (a, p) = choices[r.below(choices.len())].clone();
    Entry { addr: Addr::v6(a), plen: p }
}

/// allowlist shapes: none / single host / single block / nested / overlapping / mixed families
fn gen_allowlist(r: &mut Rng, env: &Env, kind: LKind, out: &mut Out) -> Option<Vec<Entry>> {
    let shape = r.weighted(&[2, 4, 5, 4, 4, 4, 2]);
    let v6ish = matches!(kind, LKind::V6Lo | LKind::Dual);
    let mut es: Vec<Entry> = vec![];
    match shape {
        0 => {
            out.count("allowlist:none");
            return None;
        }
        1 => {
            out.count("allowlist:single-host");
            let mut e = gen_entry_v4(r, env);
            e.plen = if r.chance(1, 2) { None } else { Some(32) };
            es.push(e);
        }
        2 => {
            out.count("allowlist:single-block");
            let mut e = gen_entry_v4(r, env);
            if e.plen.is_none() {
                e.plen = Some(*r.pick(PREFIXES_V4));
            }
            es.push(e);
        }
        3 => {
            out.count("allowlist:nested");
            // outer ⊇ inner ⊇ host
            let base = rand_lo4(r);
            let p1 = r.range(8, 24) as u32;
            let p2 = r.range(p1 as usize, 31) as u32;
            es.push(Entry { addr: Addr::v4(base), plen: Some(p1) });
            es.push(Entry { addr: Addr::v4(base), plen: Some(p2) });
            es.push(Entry { addr: Addr::v4(base), plen: if r.chance(1, 2) { None } else { Some(32) } });
            if r.chance(1, 2) {
                es.reverse();
            }
        }
        4 => {
            out.count("allowlist:overlapping-or-adjacent");
            // two blocks of different sizes around the same address, the second shifted by one block
            let base = rand_lo4(r);
            let p1 = r.range(9, 30) as u32;
            let e1 = Entry { addr: Addr::v4(base), plen: Some(p1) };
            let (lo, hi) = e1.lo_hi();
            let next = (hi as u32).wrapping_add(1);
            let shifted = if (next >> 24) == 127 { next } else { (lo as u32).wrapping_sub(1) };
            es.push(e1);
            es.push(Entry { addr: Addr::v4(shifted), plen: Some(r.range(p1 as usize - 1, 32) as u32) });
            if r.chance(1, 3) {
                es.push(gen_entry_v4(r, env));
            }
        }
        5 => {
            out.count("allowlist:random-multi");
            for _ in 0..r.range(2, 5) {
                es.push(gen_entry_v4(r, env));
            }
        }
        _ => {
            out.count("allowlist:duplicates");
            let e = gen_entry_v4(r, env);
            es.push(e.clone());
            es.push(e);
        }
    }
    // other-family entries mixed in
    if v6ish || r.chance(1, 5) {
        for _ in 0..r.range(if v6ish { 1 } else { 0 }, 2) {
            let pos = r.below(es.len() + 1);
            es.insert(pos, gen_entry_v6(r, env));
        }
    }
    Some(es)
}

/// peers worth asking about: edges of every block (first, last, one before, one after), the written
/// address, something random; restricted later to what can be bound on this machine
fn gen_peers(r: &mut Rng, env: &Env, list: &Option<Vec<Entry>>, n: usize) -> Vec<Addr> {
    let mut cand: Vec<Addr> = vec![];
    if let Some(es) = list {
        for e in es {
            let (lo, hi) = e.lo_hi();
            let mk = |b: u128| Addr { v6: e.addr.v6, bits: b };
            cand.push(mk(lo));
            cand.push(mk(hi));
            cand.push(e.addr);
            if lo > 0 {
                cand.push(mk(lo - 1));
            }
            let max = if e.addr.v6 { u128::MAX } else { u32::MAX as u128 };
            if hi < max {
                cand.push(mk(hi + 1));
            }
            if hi > lo {
                cand.push(mk(lo + 1));
                cand.push(mk(hi - 1));
                cand.push(mk(lo + (r.next() as u128) % (hi - lo)));
            }
        }
    }
    for _ in 0..3 {
        cand.push(Addr::v4(rand_lo4(r)));
    }
    cand.push(Addr::v4(0x7f00_0001));
    if let Some(g) = env.global_v4 {
        cand.push(Addr::v4(g));
    }
    if env.has_v6_lo {
        cand.push(Addr::v6(1));
    }
    if let Some(g) = env.global_v6 {
        cand.push(Addr::v6(g));
    }
    // IPv4 clients whose IPv4-mapped form is an edge of an IPv6 block (dual-stack listeners)
    let extra: Vec<Addr> =
        cand.iter().filter(|a| a.v6 && (a.bits >> 32) == 0xffff).map(|a| Addr::v4(a.bits as u32)).collect();
    cand.extend(extra);
    // bindable on this machine: 127.0.0.1–127.255.255.254, ::1, the host's own global addresses
    cand.retain(|a| {
        if a.v6 {
            (env.has_v6_lo && a.bits == 1) || Some(a.bits) == env.global_v6
        } else {
            let b = a.bits as u32;
            ((b >> 24) == 127 && b != 0x7f00_0000 && b != 0x7fff_ffff) || Some(b) == env.global_v4
        }
    });
    cand.sort();
    cand.dedup();
    // shuffle, take n, but keep a balance of inside / outside where both exist
    let mut inside: Vec<Addr> = cand.iter().cloned().filter(|a| oracle_allowed(list, a)).collect();
    let mut outside: Vec<Addr> = cand.iter().cloned().filter(|a| !oracle_allowed(list, a)).collect();
    let shuffle = |v: &mut Vec<Addr>, r: &mut Rng| {
        for i in (1..v.len()).rev() {
            let j = r.below(i + 1);
            v.swap(i, j);
        }
    };
    shuffle(&mut inside, r);
    shuffle(&mut outside, r);
    let mut res = vec![];
    while res.len() < n && (!inside.is_empty() || !outside.is_empty()) {
        if let Some(a) = inside.pop() {
            res.push(a);
        }
        if res.len() < n {
            if let Some(a) = outside.pop() {
                res.push(a);
            }
        }
    }
    res
}

const TARGETS: &[&str] = &[
    "/",
    "/metrics",
    "/health",
    "/health",
    "/health/",
    "/healthz",
    "/Health",
    "/HEALTH",
    "/health?probe=1",
    "/health?",
    "/metrics?next=/health",
    "/?/health",
    "//health",
    "/a/health",
    "/health/../metrics",
    "/%68ealth",
    "/health%20",
    "/healt",
    "/favicon.ico",
    "/metrics/",
    "/.",
    "/health;x",
    "/health&x",
];

fn gen_target(r: &mut Rng) -> String {
    match r.below(10) {
        0 => {
            let mut s = String::from("/");
            let alphabet = b"abehlthmz/._-~%20=&;+09AZ";
            for _ in 0..r.range(0, 40) {
                s.push(alphabet[r.below(alphabet.len())] as char);
            }
            if r.chance(1, 3) {
                s.push_str("?q=");
                s.push_str(r.pick_str(&["", "1", "/health", "a&b=c"]));
            }
            s
        }
        1 => format!("/{}", "x".repeat(r.range(200, 1500))),
        _ => r.pick_str(TARGETS).to_string(),
    }
}

/// path component of an origin-form request target (what `http::Uri::path` returns for it)
fn path_of(target: &str) -> &str {
    target.split('?').next().unwrap_or("")
}

// ---------------------------------------------------------------------------------------------
// one scrape = exchange + classification + oracle

fn contains_metric_text(raw: &[u8]) -> bool {
    find(raw, MARKER.as_bytes()).is_some() || find(raw, b"c18_gauge").is_some() || find(raw, b"# TYPE").is_some()
}

/// returns the implementation's answer line; fires oracles
fn do_scrape(l: &Listener, list: &Option<Vec<Entry>>, src: &Addr, target: &str, out: &mut Out) -> Option<(String, String)> {
    let (dst, seen) = l.route(src)?;
    let op = format!("allow req {} {}", seen.tok(), hexs(target));
    let expect_allowed = oracle_allowed2(list, src, &seen);
    if *src != seen {
        out.count("req:v4-mapped-peer");
        if oracle_allowed(list, src) != oracle_allowed(list, &seen) {
            out.count("req:v4-mapped-peer-decided-by-one-form");
        }
    }
    let ctx = || {
        format!(
            "allowlist [{}] listener {:?} peer {} (seen as {}) target {:?}",
            list.as_ref().map_or("<none>".to_string(), |es| es.iter().map(|e| e.text()).collect::<Vec<_>>().join(", ")),
            l.kind,
            src.ip(),
            seen.ip(),
            target
        )
    };
    let resp = match scrape(Some(src.ip()), dst, target) {
        Ok(r) => r,
        Err(e) => {
            if e.starts_with("connect: AddrNotAvailable") || e.starts_with("connect: InvalidInput") {
                out.count("peer:unbindable");
                return None;
            }
            UNANSWERED.fetch_add(1, std::sync::atomic::Ordering::Relaxed);
            out.oracle_fail("well-formed request was not answered", &format!("{} :: {}", ctx(), e));
            return Some((op, format!("noanswer {}", e.replace(' ', "_"))));
        }
    };
    let body_txt = String::from_utf8_lossy(&resp.body).to_string();
    let rendered_now = l.handle.render();
    let ans = if resp.status == 403 {
        if resp.body.is_empty() {
            "403 empty".to_string()
        } else {
            "403 body".to_string()
        }
    } else if resp.status == 200 && resp.body == b"OK" {
        "200 ok".to_string()
    } else if resp.status == 200 {
        match expo::check_exposition(&body_txt) {
            Ok(fams) => {
                let v = fams
                    .iter()
                    .find(|f| f.name == MARKER)
                    .and_then(|f| f.samples.iter().find(|(_, ls, _)| ls.iter().any(|(k, v)| k == "case" && *v == l.label)))
                    .map(|(_, _, v)| v.clone());
                match v {
                    Some(v) => format!("200 render {}", v),
                    None => "200 render-without-marker".to_string(),
                }
            }
            Err(e) => {
                out.oracle_fail("200 body is not well-formed exposition text", &format!("{} :: {}", ctx(), e));
                "200 unparsable".to_string()
            }
        }
    } else {
        format!("{} other", resp.status)
    };
    // ORACLE, independent of the model
    if !expect_allowed {
        out.count("req:outside");
        if resp.status != 403 || !resp.body.is_empty() {
            out.oracle_fail(
                "peer outside every listed network did not get 403 with an empty body",
                &format!("{} :: got {} with {} body bytes ({})", ctx(), resp.status, resp.body.len(), ans),
            );
        }
        if contains_metric_text(&resp.body) || contains_metric_text(resp.head.as_bytes()) {
            out.oracle_fail("metric data sent to a peer outside every listed network", &ctx());
        }
    } else {
        out.count(if list.is_some() { "req:inside" } else { "req:no-allowlist" });
        if resp.status == 403 {
            out.oracle_fail(
                "peer inside a listed network was refused (403)",
                &format!("{} :: got {}", ctx(), ans),
            );
            return Some((op, ans));
        }
        if path_of(target) == "/health" {
            out.count("req:health-served");
            if resp.status != 200 || resp.body != b"OK" {
                out.oracle_fail(
                    "allowed peer asking /health did not get 200 OK",
                    &format!("{} :: got {} {:?}", ctx(), resp.status, &body_txt[..body_txt.len().min(80)]),
                );
            }
        } else {
            let want = format!("200 render {}", l.marker_val);
            if ans != want {
                out.oracle_fail(
                    "allowed peer was not served the current rendering",
                    &format!("{} :: got {:?}, marker is {}", ctx(), ans, l.marker_val),
                );
            } else if canonical(&body_txt) != canonical(&rendered_now) {
                out.oracle_fail(
                    "served body differs from PrometheusHandle::render() at that time",
                    &format!("{} :: body {:?} vs render {:?}", ctx(), body_txt, rendered_now),
                );
            }
        }
    }
    Some((op, ans))
}

// ---------------------------------------------------------------------------------------------
// faults

const FAULTS: &[&str] =
    &["garbage", "halfopen", "reset", "bighead", "abort", "partial", "keepalive", "binary", "badversion", "concurrent"];

/// performs one faulty / unusual connection from `src`; returns sockets to keep open until the case ends.
/// Oracle inside: a peer outside the allowlist never sees metric text, whatever it sends.
fn do_fault(
    l: &Listener,
    list: &Option<Vec<Entry>>,
    kind: &str,
    src: &Addr,
    r: &mut Rng,
    out: &mut Out,
    keep: &mut Vec<TcpStream>,
) -> Option<String> {
    let (dst, seen) = l.route(src)?;
    let allowed = oracle_allowed2(list, src, &seen);
    let mut t = match connect_from(Some(src.ip()), dst) {
        Ok(t) => t,
        Err(e) => {
            if matches!(e.kind(), std::io::ErrorKind::AddrNotAvailable | std::io::ErrorKind::InvalidInput) {
                return None;
            }
            out.oracle_fail("listener refused a connection", &format!("fault {} from {}: {}", kind, src.ip(), e));
            return Some(format!("allow fault {} {}", kind, seen.tok()));
        }
    };
    let mut back: Vec<u8> = vec![];
    match kind {
        "garbage" => {
            let n = r.range(1, 300);
            let bytes: Vec<u8> = (0..n).map(|_| (r.next() & 0xff) as u8).collect();
            let _ = t.write_all(&bytes);
            let _ = t.write_all(b"\r\n\r\n");
            back = drain(&mut t, Duration::from_millis(300));
        }
        "binary" => {
            // TLS client hello prefix / HTTP2 preface — what a confused client sends
            let pre: &[u8] = if r.chance(1, 2) {
                b"\x16\x03\x01\x02\x00\x01\x00\x01\xfc\x03\x03"
            } else {
                b"PRI * HTTP/2.0\r\n\r\nSM\r\n\r\n"
            };
            let _ = t.write_all(pre);
            back = drain(&mut t, Duration::from_millis(300));
        }
        "badversion" => {
            let _ = t.write_all(b"GET /metrics HTTP/9.9\r\nHost: x\r\n\r\n");
            back = drain(&mut t, Duration::from_millis(300));
        }
        "halfopen" => {
            // connect, send nothing, keep the socket until the end of the case
            keep.push(t);
            return Some(format!("allow fault {} {}", kind, seen.tok()));
        }
        "partial" => {
            // request line and half a header, then silence; socket stays open
            let _ = t.write_all(b"GET /metrics HTTP/1.1\r\nHost: c18");
            keep.push(t);
            return Some(format!("allow fault {} {}", kind, seen.tok()));
        }
        "reset" => {
            let _ = t.write_all(b"GET /metrics HTTP/1.1\r\nHo");
            set_reset_on_close(&t);
            drop(t);
            return Some(format!("allow fault {} {}", kind, seen.tok()));
        }
        "abort" => {
            // full request, connection reset before the response is read
            let _ = t.write_all(&get_request("/metrics", false));
            set_reset_on_close(&t);
            drop(t);
            return Some(format!("allow fault {} {}", kind, seen.tok()));
        }
        "bighead" => {
            let _ = t.write_all(b"GET /metrics HTTP/1.1\r\nHost: x\r\nX-Pad: ");
            let pad = vec![b'a'; 64 * 1024];
            for _ in 0..r.range(2, 16) {
                if t.write_all(&pad).is_err() {
                    break;
                }
            }
            let _ = t.write_all(b"\r\n\r\n");
            back = drain(&mut t, Duration::from_millis(300));
        }
        "keepalive" => {
            // two requests on one connection, second pipelined behind the first
            let mut req = get_request("/metrics", false);
            req.extend_from_slice(&get_request("/health", true));
            let _ = t.write_all(&req);
            let dl = Instant::now() + IO_TIMEOUT;
            let mut carry = vec![];
            let first = read_response_carry(&mut t, dl, &mut carry);
            let second = read_response_carry(&mut t, dl, &mut carry);
            if !carry.is_empty() {
                out.oracle_fail("bytes after the last response on a connection", &format!("{} bytes", carry.len()));
            }
            match (first, second) {
                (Ok(a), Ok(b)) => {
                    let ok = if allowed {
                        a.status == 200 && b.status == 200 && b.body == b"OK"
                    } else {
                        a.status == 403 && b.status == 403 && a.body.is_empty() && b.body.is_empty()
                    };
                    if !ok {
                        out.oracle_fail(
                            "pipelined requests on one connection answered wrongly",
                            &format!("peer {} allowed={} got {} then {} ({:?})", seen.ip(), allowed, a.status, b.status, b.body),
                        );
                    }
                    back.extend_from_slice(&a.body);
                    back.extend_from_slice(&b.body);
                }
                (a, b) => out.oracle_fail(
                    "pipelined requests on one connection not both answered",
                    &format!("peer {} :: {:?} / {:?}", seen.ip(), a.map(|r| r.status), b.map(|r| r.status)),
                ),
            }
        }
        _ => unreachable!(),
    }
    if !allowed && contains_metric_text(&back) {
        out.oracle_fail(
            "metric data sent to a peer outside every listed network",
            &format!("fault {} from {} (seen as {})", kind, src.ip(), seen.ip()),
        );
    }
    Some(format!("allow fault {} {}", kind, seen.tok()))
}

/// several scrapers at once, from allowed and denied peers; answers are reported in a fixed order
fn do_concurrent(l: &Listener, list: &Option<Vec<Entry>>, peers: &[Addr], r: &mut Rng, out: &mut Out) {
    let n = r.range(3, 8);
    let jobs: Vec<(Addr, String)> = (0..n).map(|_| (*r.pick(peers), gen_target(r))).collect();
    let routes: Vec<Option<(SocketAddr, Addr)>> = jobs.iter().map(|(a, _)| l.route(a)).collect();
    let results: Vec<Option<Result<Resp, String>>> = std::thread::scope(|s| {
        let hs: Vec<_> = jobs
            .iter()
            .zip(routes.iter())
            .map(|((src, target), route)| {
                let route = *route;
                let src = *src;
                let target = target.clone();
                s.spawn(move || {
                    let (dst, _) = route?;
                    // two rounds each so connections overlap
                    let first = scrape(Some(src.ip()), dst, &target);
                    let second = scrape(Some(src.ip()), dst, &target);
                    Some(first.and(second))
                })
            })
            .collect();
        hs.into_iter().map(|h| h.join().unwrap_or(Some(Err("scraper thread panicked".into())))).collect()
    });
    for (((src, target), route), res) in jobs.iter().zip(routes.iter()).zip(results.into_iter()) {
        let Some((_, seen)) = route else { continue };
        let Some(res) = res else { continue };
        let allowed = oracle_allowed2(list, src, seen);
        out.count("fault:concurrent-scrape");
        match res {
            Ok(resp) => {
                let ok = if !allowed {
                    resp.status == 403 && resp.body.is_empty()
                } else if path_of(target) == "/health" {
                    resp.status == 200 && resp.body == b"OK"
                } else {
                    resp.status == 200
                        && canonical(&String::from_utf8_lossy(&resp.body)) == canonical(&l.handle.render())
                };
                if !ok {
                    out.oracle_fail(
                        "concurrent scraper answered wrongly",
                        &format!("peer {} allowed={} target {:?} → {} ({} body bytes)", seen.ip(), allowed, target, resp.status, resp.body.len()),
                    );
                }
            }
            Err(e) if e.starts_with("connect: AddrNotAvailable") || e.starts_with("connect: InvalidInput") => {}
            Err(e) => {
                UNANSWERED.fetch_add(1, std::sync::atomic::Ordering::Relaxed);
                out.oracle_fail(
                "concurrent scraper was not answered",
                &format!("peer {} (from {}) target {:?} :: {}", seen.ip(), src.ip(), target, e),
            )},
        }
    }
}

// ---------------------------------------------------------------------------------------------
// cases

struct CaseSpec {
    kind: LKind,
    entries: Vec<Entry>,
    has_list: bool,
    /// extra invalid entries tried on throw-away builders
    invalid: Vec<Entry>,
    n_peers: usize,
    n_scrapes: usize,
    faults: usize,
}

fn run_case(r: &mut Rng, env: &Env, spec: CaseSpec, tag: &str, out: &mut Out) {
    out.case(tag);
    // 1. every entry through add_allowed_address on a throw-away builder (the builder is consumed on Err)
    let mut accepted: Vec<Entry> = vec![];
    for (idx, e) in spec.entries.iter().chain(spec.invalid.iter()).enumerate() {
        let res = PrometheusBuilder::new().add_allowed_address(e.text());
        let ok = res.is_ok();
        out.op(&format!("allow parse {}", e.tok()), if ok { "ok" } else { "err" });
        out.count(match (e.plen.is_some(), e.addr.v6) {
            (false, false) => "entry:plain-v4",
            (true, false) => "entry:cidr-v4",
            (false, true) => "entry:plain-v6",
            (true, true) => "entry:cidr-v6",
        });
        if let Some(p) = e.plen {
            if p <= e.addr.width() && e.lo_hi().0 != e.addr.bits {
                out.count("entry:cidr-nonzero-host-bits");
            }
        }
        if e.documented() && !ok {
            out.oracle_fail(
                "add_allowed_address rejected an entry in the documented syntax (IP address or subnet)",
                &format!("entry {:?} → {}", e.text(), res.err().map(|e| e.to_string()).unwrap_or_default()),
            );
        }
        if !e.documented() && ok {
            out.oracle_fail("add_allowed_address accepted a prefix length beyond the address width", &format!("entry {:?}", e.text()));
        }
        if ok && idx < spec.entries.len() {
            accepted.push(e.clone());
        }
    }
    // text outside the documented syntax: must be an error (never a panic, never silently accepted)
    if tag.starts_with("corpus=0 ") {
        for bad in [
            "", " ", "localhost", "127.0.0.1/", "/8", "127.0.0.1/8/8", "127.0.0.1 ", " 127.0.0.1", "127.0.0/8", "127.0.0.1/-1",
            "127.0.0.1/+8", "127.0.0.256", "::1/", "[::1]", "127.0.0.1:80", "::1%lo", "127.0.0.1/255.0.0.0", "1.2.3.4.5",
            "0x7f.0.0.1", "127.0.0.1/ 8", ":::1", "12345::1",
        ] {
            out.count("entry:undocumented-text");
            if PrometheusBuilder::new().add_allowed_address(bad).is_ok() {
                out.oracle_fail("add_allowed_address accepted text that is neither an IP address nor a subnet", &format!("{:?}", bad));
            }
        }
    }
    let list: Option<Vec<Entry>> = if spec.has_list && !(accepted.is_empty() && !spec.entries.is_empty()) {
        Some(accepted)
    } else if spec.has_list {
        // every entry was rejected: an allowlist with no usable entry cannot be configured through the API
        out.count("allowlist:all-entries-rejected");
        return;
    } else {
        None
    };
    // 2. the listener
    let label = format!("{}", out.n_cases);
    let mut l = match start_listener(spec.kind, &list, &label) {
        Ok(l) => l,
        Err(e) => {
            out.oracle_fail("listener could not be started", &e);
            return;
        }
    };
    out.op(
        &format!("allow new {}", match &list {
            None => "~".to_string(),
            Some(es) => crate::util::list(es.iter().map(|e| e.tok())),
        }),
        "ok",
    );
    out.count(&format!("listener:{:?}", spec.kind));
    let peers = gen_peers(r, env, &list, spec.n_peers);
    if peers.is_empty() {
        out.count("case:no-peer");
        return;
    }
    let mut keep: Vec<TcpStream> = vec![];
    let mut seen_in = false;
    let mut seen_out = false;
    let mut n_done = 0;
    let mut step = |l: &mut Listener, r: &mut Rng, out: &mut Out, peer: &Addr, target: &str| {
        if gave_up() {
            return;
        }
        if r.chance(1, 2) {
            let n = r.range(1, 1000) as u64;
            l.marker.increment(n);
            l.marker_val += n;
            out.op(&format!("allow inc {}", n), "ok");
        }
        if let Some((op, ans)) = do_scrape(l, &list, peer, target, out) {
            out.op(&op, &ans);
            if ans.starts_with("403") {
                seen_out = true;
            } else {
                seen_in = true;
            }
            n_done += 1;
        }
    };
    // every peer asks for a rendering and for /health, then random (peer, target) pairs
    for p in &peers {
        let t = gen_target(r);
        step(&mut l, r, out, p, &t);
        if r.chance(1, 2) {
            step(&mut l, r, out, p, "/health");
        }
    }
    for _ in 0..spec.n_scrapes {
        let p = *r.pick(&peers);
        let t = gen_target(r);
        step(&mut l, r, out, &p, &t);
    }
    // 3. faults, then an allowed peer must still be served
    if spec.faults > 0 {
        for _ in 0..spec.faults {
            let kind = r.pick_str(FAULTS);
            let p = *r.pick(&peers);
            if kind == "concurrent" {
                do_concurrent(&l, &list, &peers, r, out);
                out.op(&format!("allow fault concurrent {}", l.route(&p).map_or(p, |x| x.1).tok()), "ok");
                out.count("fault:concurrent");
                continue;
            }
            let reps = if matches!(kind, "halfopen" | "partial" | "reset") { r.range(1, 12) } else { 1 };
            for _ in 0..reps {
                if let Some(op) = do_fault(&l, &list, kind, &p, r, out, &mut keep) {
                    out.op(&op, "ok");
                    out.count(&format!("fault:{}", kind));
                }
            }
        }
        // later clients: every peer again (allowed ones must be served the current rendering)
        let t0 = Instant::now();
        for p in &peers {
            let t = if r.chance(1, 4) { "/health".to_string() } else { "/metrics".to_string() };
            step(&mut l, r, out, p, &t);
        }
        if t0.elapsed() > IO_TIMEOUT {
            out.oracle_fail("clients after a fault sequence were served too slowly", &format!("{:?}", t0.elapsed()));
        }
        out.count("case:with-faults");
    }
    drop(keep);
    let _ = &l.recorder;
    if list.is_some() && seen_in && seen_out && n_done >= 3 {
        out.nontrivial();
    }
}

/// hand-picked configurations: the design-round finding first
fn corpus(env: &Env) -> Vec<(LKind, Vec<&'static str>, bool)> {
    let mut c: Vec<(LKind, Vec<&'static str>, bool)> = vec![
        (LKind::V4Lo, vec!["127.0.0.1"], true),
        (LKind::V4Lo, vec!["127.0.0.1/32"], true),
        (LKind::V4Lo, vec!["127.0.0.0/8"], true),
        (LKind::V4Lo, vec!["0.0.0.0/0"], true),
        (LKind::V4Lo, vec![], false),
        (LKind::V4Lo, vec!["127.0.0.2/31"], true),
        (LKind::V4Lo, vec!["127.1.2.3/8"], true),
        (LKind::V4Lo, vec!["127.1.2.3/16", "127.1.2.3"], true),
        (LKind::V4Lo, vec!["127.0.0.0/30", "127.0.0.4/30", "127.0.0.6"], true),
        (LKind::V4Lo, vec!["127.0.1.0/24", "127.0.0.0/23", "127.0.1.128/25", "127.0.1.255"], true),
        (LKind::V4Lo, vec!["10.0.0.0/8", "192.168.0.0/16"], true),
        (LKind::V4Lo, vec!["::1/128"], true),
        (LKind::V4Lo, vec!["::/0"], true),
        (LKind::V4Lo, vec!["128.0.0.0/1"], true),
        (LKind::V4Lo, vec!["0.0.0.0/1"], true),
        (LKind::V4Lo, vec!["127.255.255.254/31", "127.0.0.1"], true),
        (LKind::V4Any, vec!["127.0.0.0/8"], true),
        (LKind::V4Any, vec!["192.0.2.2"], true),
        (LKind::V4Any, vec!["192.0.2.0/24", "127.0.0.1"], true),
    ];
    if env.has_v6_lo {
        c.extend(vec![
            (LKind::V6Lo, vec!["::1"], true),
            (LKind::V6Lo, vec!["::1/128"], true),
            (LKind::V6Lo, vec!["::2/127"], true),
            (LKind::V6Lo, vec!["::/127"], true),
            (LKind::V6Lo, vec!["127.0.0.0/8"], true),
            (LKind::V6Lo, vec!["0.0.0.1/32"], true),
            (LKind::Dual, vec!["127.0.0.0/8"], true),
            (LKind::Dual, vec!["127.0.0.1", "::1"], true),
            (LKind::Dual, vec!["::ffff:127.0.0.0/104"], true),
            (LKind::Dual, vec!["::1"], true),
            (LKind::Dual, vec![], false),
        ]);
    }
    c
}

fn parse_entry_text(s: &str) -> Entry {
    let (a, p) = match s.split_once('/') {
        Some((a, p)) => (a, Some(p.parse::<u32>().unwrap())),
        None => (s, None),
    };
    Entry { addr: Addr::from_ip(a.parse().unwrap()), plen: p }
}

pub fn run(cfg: &Cfg, out: &mut Out) {
    let env = probe_env();
    out.count(if env.has_v6_lo { "env:ipv6-loopback" } else { "env:no-ipv6-loopback" });
    out.count(if env.global_v4.is_some() { "env:global-v4" } else { "env:no-global-v4" });
    out.count(if env.global_v6.is_some() { "env:global-v6" } else { "env:no-global-v6" });
    let root = Rng::new(cfg.seed);
    // corpus
    for (i, (kind, es, has_list)) in corpus(&env).into_iter().enumerate() {
        let mut r = root.fork(1_000_000 + i as u64);
        let spec = CaseSpec {
            kind,
            entries: es.iter().map(|s| parse_entry_text(s)).collect(),
            has_list,
            invalid: if i == 0 {
                vec![parse_entry_text("127.0.0.1/33"), parse_entry_text("::1/129"), parse_entry_text("10.0.0.0/40")]
            } else {
                vec![]
            },
            n_peers: 5,
            n_scrapes: 3,
            faults: if i % 4 == 2 { 3 } else { 0 },
        };
        run_case(&mut r, &env, spec, &format!("corpus={} seed={}", i, cfg.seed), out);
        if gave_up() {
            break;
        }
    }
    // generated
    for i in 0..cfg.cases {
        let mut r = root.fork(i as u64);
        let kind = match r.weighted(&[8, 3, if env.has_v6_lo { 1 } else { 0 }, if env.has_v6_lo { 3 } else { 0 }]) {
            0 => LKind::V4Lo,
            1 => LKind::V4Any,
            2 => LKind::V6Lo,
            _ => LKind::Dual,
        };
        let list = gen_allowlist(&mut r, &env, kind, out);
        let mut invalid = vec![];
        if r.chance(1, 6) {
            let mut e = gen_entry_v4(&mut r, &env);
            e.plen = Some(r.range(33, 200) as u32);
            invalid.push(e);
        }
        if r.chance(1, 12) {
            let mut e = gen_entry_v6(&mut r, &env);
            e.plen = Some(r.range(129, 300) as u32);
            invalid.push(e);
        }
        let spec = CaseSpec {
            kind,
            has_list: list.is_some(),
            entries: list.unwrap_or_default(),
            invalid,
            n_peers: r.range(2, 5),
            n_scrapes: r.range(1, 4),
            faults: if r.chance(1, 2) { r.range(2, 5) } else { 0 },
        };
        run_case(&mut r, &env, spec, &format!("seed={} i={}", cfg.seed, i), out);
        if gave_up() {
            out.count("run:stopped-after-unanswered-requests");
            break;
        }
    }
}
