//! C18 — the scrape endpoint serves the current rendering and enforces its allowlist.
//!
//! Every case builds a REAL listener (`PrometheusBuilder::with_http_listener(..).add_allowed_address(..)…build()`)
//! on a tokio runtime owned by the case, then talks raw HTTP/1.1 to it from sockets bound to chosen source
//! addresses (Linux routes all of 127.0.0.0/8 to `lo`, so any 127.x.y.z can be a peer; `::1` and the
//! host's global addresses are used when the sandbox has them).
//!
//! model ops (component `allow`, per-case state):
//!   allow parse <fam>/<addr>/<plen|~>        → ok | err          (add_allowed_address accepts the entry?)
//!   allow new <~ | entry,entry,…>            → ok | builderr     (listener configured with these entries)
//!   allow inc <n>                            → ok                (marker counter += n)
//!   allow req <fam>/<addr> <hex target>      → 403 empty | 200 ok | 200 render <marker value>
//!   allow fault <kind> <fam>/<addr>          → ok                (garbage / half-open / reset / … connection)
//! `<addr>` is the address as a decimal number, the peer is the address the listener's socket reports.
//! round 2 (builder call orders, unix-socket endpoint, whole requests, keep-alive, accept errors, install()):
//!   allow build <. | bop,bop,…>              → tcp <port> | uds | builderr   (L<port> U<id> P A<entry>, in call order)
//!   allow rq <peer> <hex method> <hex target> <. | hexname:hexvalue,…>
//!                                            → 403 empty | 200 ok | 200 head | 200 render <marker value>
//!   allow ka <peer> <hexmethod:hextarget,…>  → the answers of one keep-alive connection joined by `|`
//!   allow accepterr <errno>                  → ok   (listener.accept() failed: the process had no free descriptor)
//! `<peer>` = `<fam>/<addr>/<source port>` or `unix`.
//! round 5 (requests in flight: overlapping scrapes with an update in between; see `do_overlap`):
//!   allow cnew <v0,v1,…>                     → ok   (series 0…n-1 with these values, nothing in flight)
//!   allow cupd <k> <d>                       → ok   (series k += d, completed)
//!   allow carrive <id> <peer> <hex target>   → ok   (the GET reached the handler)
//!   allow cread <id> <k> / creadall <id>     → ok   (its rendering loads series k / every series not loaded yet)
//!   allow crespond <id>                      → 403 empty | 200 ok | 200 render <v0,v1,…>
//! round 6 (clients that half-close; request targets outside `/path[?query]`):
//!   allow hc <peer> <hexmethod:hextarget,…>  → the answers to ONE connection whose client wrote these complete requests,
//!                                              then shut down its write side (FIN) and read until EOF, joined by `|`
//!   targets of `req` / `rq` / `ka` / `hc` may carry a `#fragment`, be absolute-form (`scheme://authority/path?query`)
//!   or `*`; the oracle's `path_of` is an independent RFC 3986 split, the model's `pathOf` follows `http::Uri::path`
//!
//! implementation-side oracles (independent of the model; plain integer arithmetic on the entries the
//! test generated): membership ⇒ 403+empty+no metric text / 200+"OK" / 200+body == handle.render() with
//! the marker at its current value and accepted by the strict exposition reader; every documented entry
//! is accepted; after any fault sequence an allowed client is answered within the timeout.
use crate::expo;
use crate::prom::canonical;
use crate::util::*;
use metrics::{Key, Label, Recorder};
use metrics_exporter_prometheus::{PrometheusBuilder, PrometheusHandle};
use std::io::{Read, Write};
use std::net::{IpAddr, Ipv4Addr, Ipv6Addr, SocketAddr, TcpStream};
use std::time::{Duration, Instant};

static METADATA: metrics::Metadata =
    metrics::Metadata::new(module_path!(), metrics::Level::INFO, Some(module_path!()));

const CONNECT_TIMEOUT: Duration = Duration::from_secs(3);
const IO_TIMEOUT: Duration = Duration::from_secs(4);
const MARKER: &str = "c18_marker";
/// well-formed requests that got no answer; after `GIVE_UP` of them the run stops (a hung listener is a reported
/// failure, not a hung check)
static UNANSWERED: std::sync::atomic::AtomicUsize = std::sync::atomic::AtomicUsize::new(0);
const GIVE_UP: usize = 6;
fn gave_up() -> bool {
    UNANSWERED.load(std::sync::atomic::Ordering::Relaxed) >= GIVE_UP
}

// ---------------------------------------------------------------------------------------------
// addresses, entries, the arithmetic oracle

#[derive(Clone, Copy, PartialEq, Eq, Debug, PartialOrd, Ord)]
struct Addr {
    v6: bool,
    bits: u128,
}

impl Addr {
    fn v4(a: u32) -> Addr {
        Addr { v6: false, bits: a as u128 }
    }
    fn v6(a: u128) -> Addr {
        Addr { v6: true, bits: a }
    }
    fn ip(&self) -> IpAddr {
        if self.v6 {
            IpAddr::V6(Ipv6Addr::from(self.bits))
        } else {
            IpAddr::V4(Ipv4Addr::from(self.bits as u32))
        }
    }
    fn from_ip(ip: IpAddr) -> Addr {
        match ip {
            IpAddr::V4(a) => Addr::v4(u32::from(a)),
            IpAddr::V6(a) => Addr::v6(u128::from(a)),
        }
    }
    fn tok(&self) -> String {
        format!("{}/{}", if self.v6 { 6 } else { 4 }, self.bits)
    }
    fn width(&self) -> u32 {
        if self.v6 {
            128
        } else {
            32
        }
    }
    /// what a dual-stack (`[::]`) listener reports for an IPv4 client
    fn mapped(&self) -> Addr {
        debug_assert!(!self.v6);
        Addr::v6(0xffff_0000_0000u128 | self.bits)
    }
}

/// One `add_allowed_address` argument: plain address (`plen == None`) or CIDR.
#[derive(Clone, Debug)]
struct Entry {
    addr: Addr,
    plen: Option<u32>,
}

impl Entry {
    fn text(&self) -> String {
        match self.plen {
            None => format!("{}", self.addr.ip()),
            Some(p) => format!("{}/{}", self.addr.ip(), p),
        }
    }
    fn tok(&self) -> String {
        match self.plen {
            None => format!("{}/~", self.addr.tok()),
            Some(p) => format!("{}/{}", self.addr.tok(), p),
        }
    }
    /// documented syntax: an IP address, or address/prefix with prefix ≤ width
    fn documented(&self) -> bool {
        self.plen.map_or(true, |p| p <= self.addr.width())
    }
    /// ORACLE: does the network this entry denotes contain `peer`?  u128 masks, nothing else.
    fn contains(&self, peer: &Addr) -> bool {
        if self.addr.v6 != peer.v6 {
            return false;
        }
        let w = self.addr.width();
        let p = self.plen.unwrap_or(w);
        if p == 0 {
            return true;
        }
        let host_bits = w - p;
        let mask: u128 = if host_bits == 0 { !0u128 } else { !((1u128 << host_bits) - 1) };
        (self.addr.bits & mask) == (peer.bits & mask)
    }
    /// first / last address of the denoted block
    fn lo_hi(&self) -> (u128, u128) {
        let w = self.addr.width();
        let p = self.plen.unwrap_or(w).min(w);
        let host_bits = w - p;
        let hostmask: u128 = if host_bits >= 128 { !0u128 } else { (1u128 << host_bits) - 1 };
        (self.addr.bits & !hostmask, self.addr.bits | hostmask)
    }
}

fn oracle_allowed(list: &Option<Vec<Entry>>, peer: &Addr) -> bool {
    match list {
        None => true,
        Some(es) => es.iter().any(|e| e.contains(peer)),
    }
}

/// ORACLE for a connection: `src` is the address the client bound, `seen` what the listener's socket reports
/// (they differ only for an IPv4 client of a dual-stack listener: `seen` = ::ffff:src).  The peer is inside the
/// allowlist when either way of writing its address lies in a listed network.
fn oracle_allowed2(list: &Option<Vec<Entry>>, src: &Addr, seen: &Addr) -> bool {
    oracle_allowed(list, src) || oracle_allowed(list, seen)
}

// ---------------------------------------------------------------------------------------------
// raw HTTP/1.1 client over sockets bound to a chosen source address

fn connect_from(src: Option<IpAddr>, dst: SocketAddr) -> std::io::Result<TcpStream> {
    use socket2::{Domain, SockAddr, Socket, Type};
    let dom = if dst.is_ipv6() { Domain::IPV6 } else { Domain::IPV4 };
    let s = Socket::new(dom, Type::STREAM, None)?;
    if let Some(ip) = src {
        s.bind(&SockAddr::from(SocketAddr::new(ip, 0)))?;
    }
    s.connect_timeout(&SockAddr::from(dst), CONNECT_TIMEOUT)?;
    let t: TcpStream = s.into();
    t.set_read_timeout(Some(IO_TIMEOUT))?;
    t.set_write_timeout(Some(IO_TIMEOUT))?;
    t.set_nodelay(true)?;
    Ok(t)
}

/// RST instead of FIN on close
fn set_reset_on_close(t: &TcpStream) {
    let s = socket2::SockRef::from(t);
    let _ = s.set_linger(Some(Duration::from_secs(0)));
}

#[derive(Debug)]
struct Resp {
    status: u16,
    head: String,
    body: Vec<u8>,
}

/// reads exactly one response (status line, headers, Content-Length body); hard deadline
/// `carry` holds bytes already received that belong to the next response on the same connection
fn read_response_carry<S: Read>(t: &mut S, deadline: Instant, carry: &mut Vec<u8>) -> Result<Resp, String> {
    read_response_opt(t, deadline, carry, false)
}

/// `head_only`: the request was `HEAD` — the response has a Content-Length but no body bytes
fn read_response_opt<S: Read + ?Sized>(t: &mut S, deadline: Instant, carry: &mut Vec<u8>, head_only: bool) -> Result<Resp, String> {
    let mut buf: Vec<u8> = std::mem::take(carry);
    let mut chunk = [0u8; 8192];
    let head_end;
    loop {
        if let Some(p) = find(&buf, b"\r\n\r\n") {
            head_end = p + 4;
            break;
        }
        if Instant::now() > deadline {
            return Err("timeout waiting for response head".into());
        }
        match t.read(&mut chunk) {
            Ok(0) => return Err(format!("connection closed after {} bytes, no complete response head", buf.len())),
            Ok(n) => buf.extend_from_slice(&chunk[..n]),
            Err(e) if e.kind() == std::io::ErrorKind::Interrupted => {}
            Err(e) => return Err(format!("read error {:?}", e.kind())),
        }
    }
    let head = String::from_utf8_lossy(&buf[..head_end]).to_string();
    let mut lines = head.split("\r\n");
    let sl = lines.next().unwrap_or("");
    let mut parts = sl.split(' ');
    let ver = parts.next().unwrap_or("");
    let status: u16 = parts.next().unwrap_or("").parse().map_err(|_| format!("bad status line {:?}", sl))?;
    if !ver.starts_with("HTTP/1.") {
        return Err(format!("bad status line {:?}", sl));
    }
    let mut clen: Option<usize> = None;
    for l in lines {
        if let Some((k, v)) = l.split_once(':') {
            if k.eq_ignore_ascii_case("content-length") {
                clen = v.trim().parse().ok();
            }
            if k.eq_ignore_ascii_case("transfer-encoding") {
                return Err("unexpected transfer-encoding".into());
            }
        }
    }
    let mut body = buf[head_end..].to_vec();
    if head_only {
        *carry = body;
        return Ok(Resp { status, head, body: vec![] });
    }
    match clen {
        Some(n) => {
            while body.len() < n {
                if Instant::now() > deadline {
                    return Err("timeout waiting for response body".into());
                }
                match t.read(&mut chunk) {
                    Ok(0) => return Err("connection closed inside the body".into()),
                    Ok(k) => body.extend_from_slice(&chunk[..k]),
                    Err(e) if e.kind() == std::io::ErrorKind::Interrupted => {}
                    Err(e) => return Err(format!("read error {:?}", e.kind())),
                }
            }
            if body.len() > n {
                *carry = body.split_off(n);
            }
        }
        None => loop {
            // no length: body runs to EOF
            if Instant::now() > deadline {
                return Err("timeout waiting for EOF".into());
            }
            match t.read(&mut chunk) {
                Ok(0) => break,
                Ok(k) => body.extend_from_slice(&chunk[..k]),
                Err(e) if e.kind() == std::io::ErrorKind::Interrupted => {}
                Err(e) => return Err(format!("read error {:?}", e.kind())),
            }
        },
    }
    Ok(Resp { status, head, body })
}

fn find(h: &[u8], n: &[u8]) -> Option<usize> {
    h.windows(n.len()).position(|w| w == n)
}

fn get_request(target: &str, close: bool) -> Vec<u8> {
    format!(
        "GET {} HTTP/1.1\r\nHost: c18.test\r\nUser-Agent: mv-harness\r\n{}\r\n",
        target,
        if close { "Connection: close\r\n" } else { "" }
    )
    .into_bytes()
}

/// one well-formed GET on a fresh connection
fn scrape(src: Option<IpAddr>, dst: SocketAddr, target: &str) -> Result<Resp, String> {
    let mut t = connect_from(src, dst).map_err(|e| format!("connect: {:?} {}", e.kind(), e))?;
    t.write_all(&get_request(target, true)).map_err(|e| format!("write: {:?}", e.kind()))?;
    let mut carry = vec![];
    let r = read_response_carry(&mut t, Instant::now() + IO_TIMEOUT, &mut carry)?;
    if !carry.is_empty() {
        return Err("more body bytes than Content-Length".into());
    }
    Ok(r)
}

/// everything the peer sends back until EOF / timeout (for malformed exchanges)
fn drain(t: &mut TcpStream, max_wait: Duration) -> Vec<u8> {
    let _ = t.set_read_timeout(Some(max_wait));
    let mut buf = vec![];
    let mut chunk = [0u8; 4096];
    let end = Instant::now() + max_wait;
    while Instant::now() < end {
        match t.read(&mut chunk) {
            Ok(0) => break,
            Ok(n) => buf.extend_from_slice(&chunk[..n]),
            Err(_) => break,
        }
    }
    buf
}

// ---------------------------------------------------------------------------------------------
// the environment: which source addresses exist

struct Env {
    has_v6_lo: bool,
    global_v4: Option<u32>,
    global_v6: Option<u128>,
}

fn probe_env() -> Env {
    let has_v6_lo = std::net::TcpListener::bind("[::1]:0").is_ok();
    let global_v4 = std::net::UdpSocket::bind("0.0.0.0:0")
        .and_then(|s| {
            s.connect("198.51.100.1:9")?;
            s.local_addr()
        })
        .ok()
        .and_then(|a| match a.ip() {
            IpAddr::V4(a) if !a.is_loopback() && !a.is_unspecified() => Some(u32::from(a)),
            _ => None,
        })
        .filter(|a| std::net::TcpListener::bind((Ipv4Addr::from(*a), 0)).is_ok());
    let mut global_v6 = None;
    if let Ok(s) = std::fs::read_to_string("/proc/net/if_inet6") {
        for l in s.lines() {
            let f: Vec<&str> = l.split_whitespace().collect();
            // scope 00 = global
            if f.len() >= 6 && f[3] == "00" {
                if let Ok(a) = u128::from_str_radix(f[0], 16) {
                    if std::net::TcpListener::bind((Ipv6Addr::from(a), 0)).is_ok() {
                        global_v6 = Some(a);
                        break;
                    }
                }
            }
        }
    }
    Env { has_v6_lo, global_v4, global_v6 }
}

// ---------------------------------------------------------------------------------------------
// a running listener

#[derive(Clone, Copy, PartialEq, Debug)]
enum LKind {
    /// 127.0.0.1:port
    V4Lo,
    /// 0.0.0.0:port
    V4Any,
    /// [::1]:port
    V6Lo,
    /// [::]:port, dual stack: IPv4 clients appear as ::ffff:a.b.c.d
    Dual,
    /// unix domain socket (`with_http_uds_listener`): no TCP peer can reach it
    Uds,
}

struct Listener {
    rt: Option<tokio::runtime::Runtime>,
    port: u16,
    kind: LKind,
    /// `None` for listeners started through `install()` (the recorder went into the global slot)
    handle: Option<PrometheusHandle>,
    marker: metrics::Counter,
    marker_val: u64,
    label: String,
    recorder: Option<metrics_exporter_prometheus::PrometheusRecorder>,
    uds_path: Option<std::path::PathBuf>,
}

impl Drop for Listener {
    fn drop(&mut self) {
        if let Some(rt) = self.rt.take() {
            rt.shutdown_background();
        }
        if let Some(p) = self.uds_path.take() {
            let _ = std::fs::remove_file(p);
        }
    }
}

fn free_port(kind: LKind) -> std::io::Result<u16> {
    let l = match kind {
        LKind::V4Lo | LKind::V4Any => std::net::TcpListener::bind("127.0.0.1:0")?,
        LKind::V6Lo | LKind::Dual => std::net::TcpListener::bind("[::1]:0")?,
        LKind::Uds => std::net::TcpListener::bind("127.0.0.1:0")?,
    };
    Ok(l.local_addr()?.port())
}

fn start_listener(kind: LKind, entries: &Option<Vec<Entry>>, label: &str) -> Result<Listener, String> {
    let mut ops = vec![BOp::Listen];
    if let Some(es) = entries {
        ops.extend(es.iter().cloned().map(BOp::Allow));
    }
    start_listener_ops(kind, &ops, label, false, Start::Build).map(|x| x.0)
}

impl Listener {
    /// where a client with source address `src` has to connect, and what the listener will see as its peer
    fn route(&self, src: &Addr) -> Option<(SocketAddr, Addr)> {
        let is_lo4 = !src.v6 && (src.bits >> 24) == 127;
        let is_lo6 = src.v6 && src.bits == 1;
        match self.kind {
            LKind::V4Lo if is_lo4 => Some((SocketAddr::from(([127, 0, 0, 1], self.port)), *src)),
            LKind::V4Any if !src.v6 => {
                let dst = if is_lo4 { Ipv4Addr::LOCALHOST } else { Ipv4Addr::from(src.bits as u32) };
                Some((SocketAddr::new(IpAddr::V4(dst), self.port), *src))
            }
            LKind::V6Lo if is_lo6 => Some((SocketAddr::new(IpAddr::V6(Ipv6Addr::LOCALHOST), self.port), *src)),
            LKind::Dual => {
                if src.v6 {
                    let dst = if is_lo6 { Ipv6Addr::LOCALHOST } else { Ipv6Addr::from(src.bits) };
                    Some((SocketAddr::new(IpAddr::V6(dst), self.port), *src))
                } else {
                    let dst = if is_lo4 { Ipv4Addr::LOCALHOST } else { Ipv4Addr::from(src.bits as u32) };
                    Some((SocketAddr::new(IpAddr::V4(dst), self.port), src.mapped()))
                }
            }
            _ => None,
        }
    }
}

// ---------------------------------------------------------------------------------------------
// generators

const PREFIXES_V4: &[u32] = &[0, 1, 7, 8, 8, 9, 12, 16, 16, 20, 24, 24, 25, 28, 30, 31, 31, 32, 32];

fn rand_lo4(r: &mut Rng) -> u32 {
    // 127.x.y.z, biased to small and boundary components
    let comp = |r: &mut Rng| -> u32 {
        match r.below(6) {
            0 => 0,
            1 => 255,
            2 => 1,
            3 => *r.pick(&[127u32, 128, 254, 2, 63, 64]),
            _ => r.below(256) as u32,
        }
    };
    (127u32 << 24) | (comp(r) << 16) | (comp(r) << 8) | comp(r)
}

fn gen_entry_v4(r: &mut Rng, env: &Env) -> Entry {
    let addr = match r.below(12) {
        0 => 0x7f00_0001,
        1 => env.global_v4.unwrap_or(0x0a00_0001),
        2 => *r.pick(&[0x0a00_0000u32, 0xc000_0200, 0x8000_0000, 0x7e00_0000, 0, 0xffff_ffff, 0x8000_0001]),
        _ => rand_lo4(r),
    };
    let plen = match r.below(10) {
        0 | 1 | 2 => None,
        _ => Some(*r.pick(PREFIXES_V4)),
    };
    // CIDR entries: half the time written with the network address, half with host bits left set
    let mut e = Entry { addr: Addr::v4(addr), plen };
    if plen.is_some() && r.chance(1, 2) {
        e.addr.bits = e.lo_hi().0;
    }
    e
}

fn gen_entry_v6(r: &mut Rng, env: &Env) -> Entry {
    let mapped_lo = 0xffff_7f00_0000u128;
    let choices: Vec<(u128, Option<u32>)> = vec![
        (1, Some(128)),
        (1, None),
        (0, Some(0)),
        (0, Some(127)),
        (2, Some(127)),
        (mapped_lo, Some(104)),
        (mapped_lo | 1, None),
        (mapped_lo | 1, Some(128)),
        (0xffff_0000_0000u128, Some(96)),
        (env.global_v6.unwrap_or(0xfd00u128 << 112), Some(64)),
        (env.global_v6.unwrap_or(0xfd00u128 << 112), None),
        (0xfd00u128 << 112, Some(8)),
        (0xfe80u128 << 112, Some(10)),
        (1u128 << 127, Some(1)),
    ];
    let (a, p) = choices[r.below(choices.len())].clone();
    Entry { addr: Addr::v6(a), plen: p }
}

/// allowlist shapes: none / single host / single block / nested / overlapping / mixed families
fn gen_allowlist(r: &mut Rng, env: &Env, kind: LKind, out: &mut Out) -> Option<Vec<Entry>> {
    let shape = r.weighted(&[2, 4, 5, 4, 4, 4, 2, 3]);
    let v6ish = matches!(kind, LKind::V6Lo | LKind::Dual);
    let mut es: Vec<Entry> = vec![];
    match shape {
        0 => {
            out.count("allowlist:none");
            return None;
        }
        1 => {
            out.count("allowlist:single-host");
            let mut e = gen_entry_v4(r, env);
            e.plen = if r.chance(1, 2) { None } else { Some(32) };
            es.push(e);
        }
        2 => {
            out.count("allowlist:single-block");
            let mut e = gen_entry_v4(r, env);
            if e.plen.is_none() {
                e.plen = Some(*r.pick(PREFIXES_V4));
            }
            es.push(e);
        }
        3 => {
            out.count("allowlist:nested");
            // outer ⊇ inner ⊇ host
            let base = rand_lo4(r);
            let p1 = r.range(8, 24) as u32;
            let p2 = r.range(p1 as usize, 31) as u32;
            es.push(Entry { addr: Addr::v4(base), plen: Some(p1) });
            es.push(Entry { addr: Addr::v4(base), plen: Some(p2) });
            es.push(Entry { addr: Addr::v4(base), plen: if r.chance(1, 2) { None } else { Some(32) } });
            if r.chance(1, 2) {
                es.reverse();
            }
        }
        4 => {
            out.count("allowlist:overlapping-or-adjacent");
            // two blocks of different sizes around the same address, the second shifted by one block
            let base = rand_lo4(r);
            let p1 = r.range(9, 30) as u32;
            let e1 = Entry { addr: Addr::v4(base), plen: Some(p1) };
            let (lo, hi) = e1.lo_hi();
            let next = (hi as u32).wrapping_add(1);
            let shifted = if (next >> 24) == 127 { next } else { (lo as u32).wrapping_sub(1) };
            es.push(e1);
            es.push(Entry { addr: Addr::v4(shifted), plen: Some(r.range(p1 as usize - 1, 32) as u32) });
            if r.chance(1, 3) {
                es.push(gen_entry_v4(r, env));
            }
        }
        5 => {
            out.count("allowlist:random-multi");
            for _ in 0..r.range(2, 5) {
                es.push(gen_entry_v4(r, env));
            }
        }
        6 => {
            out.count("allowlist:duplicates");
            let e = gen_entry_v4(r, env);
            es.push(e.clone());
            es.push(e);
        }
        _ => {
            out.count("allowlist:long");
            es = gen_long_allowlist(r, env);
        }
    }
    // other-family entries mixed in
    if v6ish || r.chance(1, 5) {
        for _ in 0..r.range(if v6ish { 1 } else { 0 }, 2) {
            let pos = r.below(es.len() + 1);
            es.insert(pos, gen_entry_v6(r, env));
        }
    }
    Some(es)
}

/// peers worth asking about: edges of every block (first, last, one before, one after), the written
/// address, something random; restricted later to what can be bound on this machine
fn gen_peers(r: &mut Rng, env: &Env, list: &Option<Vec<Entry>>, n: usize) -> Vec<Addr> {
    let mut cand: Vec<Addr> = vec![];
    if let Some(es) = list {
        for e in es {
            let (lo, hi) = e.lo_hi();
            let mk = |b: u128| Addr { v6: e.addr.v6, bits: b };
            cand.push(mk(lo));
            cand.push(mk(hi));
            cand.push(e.addr);
            if lo > 0 {
                cand.push(mk(lo - 1));
            }
            let max = if e.addr.v6 { u128::MAX } else { u32::MAX as u128 };
            if hi < max {
                cand.push(mk(hi + 1));
            }
            if hi > lo {
                cand.push(mk(lo + 1));
                cand.push(mk(hi - 1));
                cand.push(mk(lo + (r.next() as u128) % (hi - lo)));
            }
        }
    }
    for _ in 0..3 {
        cand.push(Addr::v4(rand_lo4(r)));
    }
    cand.push(Addr::v4(0x7f00_0001));
    if let Some(g) = env.global_v4 {
        cand.push(Addr::v4(g));
    }
    if env.has_v6_lo {
        cand.push(Addr::v6(1));
    }
    if let Some(g) = env.global_v6 {
        cand.push(Addr::v6(g));
    }
    // IPv4 clients whose IPv4-mapped form is an edge of an IPv6 block (dual-stack listeners)
    let extra: Vec<Addr> =
        cand.iter().filter(|a| a.v6 && (a.bits >> 32) == 0xffff).map(|a| Addr::v4(a.bits as u32)).collect();
    cand.extend(extra);
    // bindable on this machine: 127.0.0.1–127.255.255.254, ::1, the host's own global addresses
    cand.retain(|a| {
        if a.v6 {
            (env.has_v6_lo && a.bits == 1) || Some(a.bits) == env.global_v6
        } else {
            let b = a.bits as u32;
            ((b >> 24) == 127 && b != 0x7f00_0000 && b != 0x7fff_ffff) || Some(b) == env.global_v4
        }
    });
    cand.sort();
    cand.dedup();
    // shuffle, take n, but keep a balance of inside / outside where both exist
    let mut inside: Vec<Addr> = cand.iter().cloned().filter(|a| oracle_allowed(list, a)).collect();
    let mut outside: Vec<Addr> = cand.iter().cloned().filter(|a| !oracle_allowed(list, a)).collect();
    let shuffle = |v: &mut Vec<Addr>, r: &mut Rng| {
        for i in (1..v.len()).rev() {
            let j = r.below(i + 1);
            v.swap(i, j);
        }
    };
    shuffle(&mut inside, r);
    shuffle(&mut outside, r);
    let mut res = vec![];
    while res.len() < n && (!inside.is_empty() || !outside.is_empty()) {
        if let Some(a) = inside.pop() {
            res.push(a);
        }
        if res.len() < n {
            if let Some(a) = outside.pop() {
                res.push(a);
            }
        }
    }
    res
}

const TARGETS: &[&str] = &[
    "/",
    "/metrics",
    "/health",
    "/health",
    "/health/",
    "/healthz",
    "/Health",
    "/HEALTH",
    "/health?probe=1",
    "/health?",
    "/metrics?next=/health",
    "/?/health",
    "//health",
    "/a/health",
    "/health/../metrics",
    "/%68ealth",
    "/health%20",
    "/healt",
    "/favicon.ico",
    "/metrics/",
    "/.",
    "/health;x",
    "/health&x",
    // (round 6) request targets outside `/path[?query]`: a fragment (httparse lets `#` through), absolute-form (what a
    // client behind a proxy sends), asterisk-form
    "/health#x",
    "/health#",
    "/health?a=1#b?c",
    "/metrics#/health",
    "/#/health",
    "/healthz#/health",
    "http://c18.test/health",
    "http://c18.test:9000/health?probe=1",
    "http://c18.test/health#frag",
    "http://c18.test/metrics",
    "http://health/metrics",
    "http://c18.test/health/",
    "http://c18.test",
    "http://c18.test?/health",
    "https://c18.test/health",
    "*",
];

fn gen_target(r: &mut Rng) -> String {
    match r.below(10) {
        0 => {
            let mut s = String::from("/");
            let alphabet = b"abehlthmz/._-~%20=&;+09AZ#:";
            for _ in 0..r.range(0, 40) {
                s.push(alphabet[r.below(alphabet.len())] as char);
            }
            if r.chance(1, 3) {
                s.push_str("?q=");
                s.push_str(r.pick_str(&["", "1", "/health", "a&b=c", "#/health", "?"]));
            }
            if r.chance(1, 5) {
                // the same target in absolute-form
                s = format!("{}://{}{}", r.pick_str(&["http", "https", "h2c+x"]), r.pick_str(&["c18.test", "127.0.0.1:9000", "[::1]:80", "health"]), s);
            }
            s
        }
        1 => match r.below(3) {
            0 => format!("/{}", "x".repeat(r.range(200, 1500))),
            // (round 5, after seed C18-10) a LONG request head: a well-formed GET stays well-formed when its path or query
            // is tens of kilobytes long (still far below hyper's own default limits) — it must be served like any other
            1 => format!("/metrics?{}", "q=0123456789abcdef&".repeat(r.range(600, 3000))),
            _ => format!("/{}", "seg/".repeat(r.range(3000, 12000))),
        },
        2 => {
            // `/health` and near misses with a query / fragment / authority around them
            let core = r.pick_str(&["/health", "/health", "/health/", "/healt", "/Health", "/", ""]);
            let tail = r.pick_str(&["", "?", "#", "?x#y", "#x?y", "?/health", "#/health", ";x"]);
            let head = r.pick_str(&["", "", "http://c18.test", "http://health:9000", "https://h"]);
            let t = format!("{}{}{}", head, core, tail);
            if t.is_empty() || t.starts_with('?') || t.starts_with('#') || t.starts_with(';') { "/".to_string() } else { t }
        }
        _ => r.pick_str(TARGETS).to_string(),
    }
}

fn cut_path(s: &str) -> &str {
    &s[..s.find(|c| c == '?' || c == '#').unwrap_or(s.len())]
}

/// ORACLE: the path component of a request target as RFC 3986 / RFC 9112 §3.2 split it (written without looking at
/// `http::Uri`): origin-form `/path[?query]` (a `#fragment`, which the request-line parser lets through, is not part
/// of the path either); absolute-form `scheme://authority[/path][?query][#fragment]` with `/` for an empty path;
/// asterisk-form `*`; authority-form has no path.
fn path_of(target: &str) -> &str {
    if target.starts_with('/') {
        return cut_path(target);
    }
    if target == "*" {
        return "*";
    }
    if let Some(i) = target.find("://") {
        let rest = &target[i + 3..];
        let j = rest.find(|c| c == '/' || c == '?' || c == '#').unwrap_or(rest.len());
        let p = cut_path(&rest[j..]);
        return if p.is_empty() { "/" } else { p };
    }
    ""
}

// ---------------------------------------------------------------------------------------------
// one scrape = exchange + classification + oracle

fn contains_metric_text(raw: &[u8]) -> bool {
    find(raw, MARKER.as_bytes()).is_some() || find(raw, b"c18_gauge").is_some() || find(raw, b"# TYPE").is_some()
}

/// returns the implementation's answer line; fires oracles
fn do_scrape(l: &Listener, list: &Option<Vec<Entry>>, src: &Addr, target: &str, out: &mut Out) -> Option<(String, String)> {
    let (dst, seen) = l.route(src)?;
    let op = format!("allow req {} {}", seen.tok(), hexs(target));
    let expect_allowed = oracle_allowed2(list, src, &seen);
    if *src != seen {
        out.count("req:v4-mapped-peer");
        if oracle_allowed(list, src) != oracle_allowed(list, &seen) {
            out.count("req:v4-mapped-peer-decided-by-one-form");
        }
    }
    let ctx = || {
        format!(
            "allowlist [{}] listener {:?} peer {} (seen as {}) target {:?}",
            list.as_ref().map_or("<none>".to_string(), |es| es.iter().map(|e| e.text()).collect::<Vec<_>>().join(", ")),
            l.kind,
            src.ip(),
            seen.ip(),
            target
        )
    };
    let resp = match scrape(Some(src.ip()), dst, target) {
        Ok(r) => r,
        Err(e) => {
            if e.starts_with("connect: AddrNotAvailable") || e.starts_with("connect: InvalidInput") {
                out.count("peer:unbindable");
                return None;
            }
            UNANSWERED.fetch_add(1, std::sync::atomic::Ordering::Relaxed);
            out.oracle_fail("well-formed request was not answered", &format!("{} :: {}", ctx(), e));
            return Some((op, format!("noanswer {}", e.replace(' ', "_"))));
        }
    };
    let body_txt = String::from_utf8_lossy(&resp.body).to_string();
    let rendered_now = l.handle.as_ref().map(|h| h.render());
    let ans = if resp.status == 403 {
        if resp.body.is_empty() {
            "403 empty".to_string()
        } else {
            "403 body".to_string()
        }
    } else if resp.status == 200 && resp.body == b"OK" {
        "200 ok".to_string()
    } else if resp.status == 200 {
        match expo::check_exposition(&body_txt) {
            Ok(fams) => {
                let v = fams
                    .iter()
                    .find(|f| f.name == MARKER)
                    .and_then(|f| f.samples.iter().find(|(_, ls, _)| ls.iter().any(|(k, v)| k == "case" && *v == l.label)))
                    .map(|(_, _, v)| v.clone());
                match v {
                    Some(v) => format!("200 render {}", v),
                    None => "200 render-without-marker".to_string(),
                }
            }
            Err(e) => {
                out.oracle_fail("200 body is not well-formed exposition text", &format!("{} :: {}", ctx(), e));
                "200 unparsable".to_string()
            }
        }
    } else {
        format!("{} other", resp.status)
    };
    // ORACLE, independent of the model
    if !expect_allowed {
        out.count("req:outside");
        if resp.status != 403 || !resp.body.is_empty() {
            out.oracle_fail(
                "peer outside every listed network did not get 403 with an empty body",
                &format!("{} :: got {} with {} body bytes ({})", ctx(), resp.status, resp.body.len(), ans),
            );
        }
        if contains_metric_text(&resp.body) || contains_metric_text(resp.head.as_bytes()) {
            out.oracle_fail("metric data sent to a peer outside every listed network", &ctx());
        }
    } else {
        out.count(if list.is_some() { "req:inside" } else { "req:no-allowlist" });
        if resp.status == 403 {
            out.oracle_fail(
                "peer inside a listed network was refused (403)",
                &format!("{} :: got {}", ctx(), ans),
            );
            return Some((op, ans));
        }
        if path_of(target) == "/health" {
            out.count("req:health-served");
            if resp.status != 200 || resp.body != b"OK" {
                out.oracle_fail(
                    "allowed peer asking /health did not get 200 OK",
                    &format!("{} :: got {} {:?}", ctx(), resp.status, &body_txt[..body_txt.len().min(80)]),
                );
            }
        } else {
            let want = format!("200 render {}", l.marker_val);
            if ans != want {
                out.oracle_fail(
                    "allowed peer was not served the current rendering",
                    &format!("{} :: got {:?}, marker is {}", ctx(), ans, l.marker_val),
                );
            } else if let Some(rendered_now) = &rendered_now {
                if canonical(&body_txt) != canonical(rendered_now) {
                    out.oracle_fail(
                        "served body differs from PrometheusHandle::render() at that time",
                        &format!("{} :: body {:?} vs render {:?}", ctx(), clip(&body_txt), clip(rendered_now)),
                    );
                }
            }
        }
    }
    Some((op, ans))
}

// ---------------------------------------------------------------------------------------------
// faults

#[allow(dead_code)]
const FAULTS: &[&str] =
    &["garbage", "halfopen", "reset", "bighead", "abort", "partial", "keepalive", "binary", "badversion", "concurrent"];

/// the fault kinds of the model (`FAULTS`) plus two that have their own model ops: real accept errors and
/// keep-alive connections carrying several requests
const FAULTS2: &[&str] = &[
    "garbage", "halfopen", "reset", "bighead", "abort", "partial", "keepalive", "binary", "badversion", "concurrent", "accepterr", "accepterr", "ka", "ka", "flood",
    "hc", "hc",
];

/// performs one faulty / unusual connection from `src`; returns sockets to keep open until the case ends.
/// Oracle inside: a peer outside the allowlist never sees metric text, whatever it sends.
fn do_fault(
    l: &Listener,
    list: &Option<Vec<Entry>>,
    kind: &str,
    src: &Addr,
    r: &mut Rng,
    out: &mut Out,
    keep: &mut Vec<TcpStream>,
) -> Option<String> {
    let (dst, seen) = l.route(src)?;
    let allowed = oracle_allowed2(list, src, &seen);
    let mut t = match connect_from(Some(src.ip()), dst) {
        Ok(t) => t,
        Err(e) => {
            if matches!(e.kind(), std::io::ErrorKind::AddrNotAvailable | std::io::ErrorKind::InvalidInput) {
                return None;
            }
            out.oracle_fail("listener refused a connection", &format!("fault {} from {}: {}", kind, src.ip(), e));
            return Some(format!("allow fault {} {}", kind, seen.tok()));
        }
    };
    let mut back: Vec<u8> = vec![];
    match kind {
        "garbage" => {
            let n = r.range(1, 300);
            let bytes: Vec<u8> = (0..n).map(|_| (r.next() & 0xff) as u8).collect();
            let _ = t.write_all(&bytes);
            let _ = t.write_all(b"\r\n\r\n");
            back = drain(&mut t, Duration::from_millis(300));
        }
        "binary" => {
            // TLS client hello prefix / HTTP2 preface — what a confused client sends
            let pre: &[u8] = if r.chance(1, 2) {
                b"\x16\x03\x01\x02\x00\x01\x00\x01\xfc\x03\x03"
            } else {
                b"PRI * HTTP/2.0\r\n\r\nSM\r\n\r\n"
            };
            let _ = t.write_all(pre);
            back = drain(&mut t, Duration::from_millis(300));
        }
        "badversion" => {
            let _ = t.write_all(b"GET /metrics HTTP/9.9\r\nHost: x\r\n\r\n");
            back = drain(&mut t, Duration::from_millis(300));
        }
        "halfopen" => {
            // connect, send nothing, keep the socket until the end of the case
            keep.push(t);
            return Some(format!("allow fault {} {}", kind, seen.tok()));
        }
        "partial" => {
            // request line and half a header, then silence; socket stays open
            let _ = t.write_all(b"GET /metrics HTTP/1.1\r\nHost: c18");
            keep.push(t);
            return Some(format!("allow fault {} {}", kind, seen.tok()));
        }
        "reset" => {
            let _ = t.write_all(b"GET /metrics HTTP/1.1\r\nHo");
            set_reset_on_close(&t);
            drop(t);
            return Some(format!("allow fault {} {}", kind, seen.tok()));
        }
        "abort" => {
            // full request, connection reset before the response is read
            let _ = t.write_all(&get_request("/metrics", false));
            set_reset_on_close(&t);
            drop(t);
            return Some(format!("allow fault {} {}", kind, seen.tok()));
        }
        "bighead" => {
            let _ = t.write_all(b"GET /metrics HTTP/1.1\r\nHost: x\r\nX-Pad: ");
            let pad = vec![b'a'; 64 * 1024];
            for _ in 0..r.range(2, 16) {
                if t.write_all(&pad).is_err() {
                    break;
                }
            }
            let _ = t.write_all(b"\r\n\r\n");
            back = drain(&mut t, Duration::from_millis(300));
        }
        "keepalive" => {
            // two requests on one connection, second pipelined behind the first
            let mut req = get_request("/metrics", false);
            req.extend_from_slice(&get_request("/health", true));
            let _ = t.write_all(&req);
            let dl = Instant::now() + IO_TIMEOUT;
            let mut carry = vec![];
            let first = read_response_carry(&mut t, dl, &mut carry);
            let second = read_response_carry(&mut t, dl, &mut carry);
            if !carry.is_empty() {
                out.oracle_fail("bytes after the last response on a connection", &format!("{} bytes", carry.len()));
            }
            match (first, second) {
                (Ok(a), Ok(b)) => {
                    let ok = if allowed {
                        a.status == 200 && b.status == 200 && b.body == b"OK"
                    } else {
                        a.status == 403 && b.status == 403 && a.body.is_empty() && b.body.is_empty()
                    };
                    if !ok {
                        out.oracle_fail(
                            "pipelined requests on one connection answered wrongly",
                            &format!("peer {} allowed={} got {} then {} ({:?})", seen.ip(), allowed, a.status, b.status, b.body),
                        );
                    }
                    back.extend_from_slice(&a.body);
                    back.extend_from_slice(&b.body);
                }
                (a, b) => out.oracle_fail(
                    "pipelined requests on one connection not both answered",
                    &format!("peer {} :: {:?} / {:?}", seen.ip(), a.map(|r| r.status), b.map(|r| r.status)),
                ),
            }
        }
        _ => unreachable!(),
    }
    if !allowed && contains_metric_text(&back) {
        out.oracle_fail(
            "metric data sent to a peer outside every listed network",
            &format!("fault {} from {} (seen as {})", kind, src.ip(), seen.ip()),
        );
    }
    Some(format!("allow fault {} {}", kind, seen.tok()))
}

/// several scrapers at once, from allowed and denied peers; answers are reported in a fixed order
fn do_concurrent(l: &Listener, list: &Option<Vec<Entry>>, peers: &[Addr], r: &mut Rng, out: &mut Out) {
    let n = r.range(3, 8);
    let jobs: Vec<(Addr, String)> = (0..n).map(|_| (*r.pick(peers), gen_target(r))).collect();
    let routes: Vec<Option<(SocketAddr, Addr)>> = jobs.iter().map(|(a, _)| l.route(a)).collect();
    let results: Vec<Option<Result<Resp, String>>> = std::thread::scope(|s| {
        let hs: Vec<_> = jobs
            .iter()
            .zip(routes.iter())
            .map(|((src, target), route)| {
                let route = *route;
                let src = *src;
                let target = target.clone();
                s.spawn(move || {
                    let (dst, _) = route?;
                    // two rounds each so connections overlap
                    let first = scrape(Some(src.ip()), dst, &target);
                    let second = scrape(Some(src.ip()), dst, &target);
                    Some(first.and(second))
                })
            })
            .collect();
        hs.into_iter().map(|h| h.join().unwrap_or(Some(Err("scraper thread panicked".into())))).collect()
    });
    for (((src, target), route), res) in jobs.iter().zip(routes.iter()).zip(results.into_iter()) {
        let Some((_, seen)) = route else { continue };
        let Some(res) = res else { continue };
        let allowed = oracle_allowed2(list, src, seen);
        out.count("fault:concurrent-scrape");
        match res {
            Ok(resp) => {
                let ok = if !allowed {
                    resp.status == 403 && resp.body.is_empty()
                } else if path_of(target) == "/health" {
                    resp.status == 200 && resp.body == b"OK"
                } else {
                    resp.status == 200
                        && l.handle.as_ref().map_or(true, |h| canonical(&String::from_utf8_lossy(&resp.body)) == canonical(&h.render()))
                };
                if !ok {
                    out.oracle_fail(
                        "concurrent scraper answered wrongly",
                        &format!("peer {} allowed={} target {:?} → {} ({} body bytes)", seen.ip(), allowed, target, resp.status, resp.body.len()),
                    );
                }
            }
            Err(e) if e.starts_with("connect: AddrNotAvailable") || e.starts_with("connect: InvalidInput") => {}
            Err(e) => {
                UNANSWERED.fetch_add(1, std::sync::atomic::Ordering::Relaxed);
                out.oracle_fail(
                "concurrent scraper was not answered",
                &format!("peer {} (from {}) target {:?} :: {}", seen.ip(), src.ip(), target, e),
            )},
        }
    }
}

// ---------------------------------------------------------------------------------------------
// round 2: builder call orders, unix-socket endpoint, whole requests (method / headers / source port),
// keep-alive connections in the model, accept errors, install(), big renderings, long allowlists

fn clip(s: &str) -> String {
    if s.len() > 400 {
        format!("{}… ({} bytes)", &s[..s.char_indices().map(|(i, _)| i).take_while(|i| *i <= 400).last().unwrap_or(0)], s.len())
    } else {
        s.to_string()
    }
}

/// one builder call that concerns the listener
#[derive(Clone, Debug)]
enum BOp {
    /// `with_http_listener(<the address of the case's listener kind>:<free port>)`
    Listen,
    /// `with_http_listener(127.0.0.1:<another free port>)` — meant to be overwritten by a later call
    ListenDecoy,
    /// `with_http_uds_listener(<fresh path>)`
    Uds,
    Allow(Entry),
}

#[derive(Clone, Copy, PartialEq, Debug)]
enum Start {
    /// `build()` inside the case's multi-thread runtime, exporter future spawned there
    Build,
    /// `install()` called on a thread without a runtime: own `current_thread` runtime on a background thread
    InstallOwnRuntime,
    /// `install()` called inside a runtime: exporter spawned on that runtime
    InstallInRuntime,
}

static UDS_SEQ: std::sync::atomic::AtomicUsize = std::sync::atomic::AtomicUsize::new(0);

fn register_fixture(recorder: &dyn Recorder, label: &str, big: bool) -> metrics::Counter {
    let key = Key::from_parts(MARKER, vec![Label::new("case", label.to_string())]);
    let marker = recorder.register_counter(&key, &METADATA);
    let g = recorder.register_gauge(&Key::from_name("c18_gauge"), &METADATA);
    g.set(-1.5);
    let h = recorder.register_histogram(&Key::from_name("c18_hist"), &METADATA);
    h.record(0.25);
    h.record(4.0);
    if big {
        // a rendering of several hundred KB: many series with long label values
        for i in 0..1500u32 {
            let k = Key::from_parts(
                "c18_bulk",
                vec![Label::new("i", i.to_string()), Label::new("pad", "p".repeat(100 + (i as usize % 37)))],
            );
            recorder.register_counter(&k, &METADATA).increment(i as u64 + 1);
        }
    }
    marker
}

/// Runs the builder calls `ops` IN THIS ORDER on `PrometheusBuilder::new()`, starts the endpoint the way `start`
/// says and returns it with the model's op tokens (`L<port>`, `U<id>`, `A<entry>`).  When `ops` contains no
/// destination call the builder's default (`0.0.0.0:9000`) is used.
fn start_listener_ops(kind: LKind, ops: &[BOp], label: &str, big: bool, start: Start) -> Result<(Listener, String), String> {
    let mut last = String::new();
    for _attempt in 0..25 {
        let mut b = PrometheusBuilder::new();
        let mut toks: Vec<String> = vec![];
        let mut port: u16 = 9000;
        let mut final_kind = LKind::V4Any; // the default config listens on 0.0.0.0:9000
        let mut uds_path: Option<std::path::PathBuf> = None;
        for op in ops {
            match op {
                BOp::Listen => {
                    port = free_port(kind).map_err(|e| e.to_string())?;
                    let bind: SocketAddr = match kind {
                        LKind::V4Lo | LKind::Uds => SocketAddr::from(([127, 0, 0, 1], port)),
                        LKind::V4Any => SocketAddr::from(([0, 0, 0, 0], port)),
                        LKind::V6Lo => SocketAddr::new(IpAddr::V6(Ipv6Addr::LOCALHOST), port),
                        LKind::Dual => SocketAddr::new(IpAddr::V6(Ipv6Addr::UNSPECIFIED), port),
                    };
                    b = b.with_http_listener(bind);
                    final_kind = if kind == LKind::Uds { LKind::V4Lo } else { kind };
                    uds_path = None;
                    toks.push(format!("L{}", port));
                }
                BOp::ListenDecoy => {
                    let p = free_port(LKind::V4Lo).map_err(|e| e.to_string())?;
                    b = b.with_http_listener(SocketAddr::from(([127, 0, 0, 1], p)));
                    port = p;
                    final_kind = LKind::V4Lo;
                    uds_path = None;
                    toks.push(format!("L{}", p));
                }
                BOp::Uds => {
                    let n = UDS_SEQ.fetch_add(1, std::sync::atomic::Ordering::Relaxed);
                    let path = std::env::temp_dir().join(format!("mv-c18-{}-{}.sock", std::process::id(), n));
                    if n % 2 == 0 {
                        // a stale file at the path: `new_http_uds_listener` removes it
                        let _ = std::fs::write(&path, b"stale");
                    }
                    b = b.with_http_uds_listener(path.clone());
                    final_kind = LKind::Uds;
                    uds_path = Some(path);
                    toks.push(format!("U{}", n));
                }
                BOp::Allow(e) => {
                    b = match b.add_allowed_address(e.text()) {
                        Ok(b) => b,
                        Err(err) => return Err(format!("add_allowed_address({:?}) failed: {}", e.text(), err)),
                    };
                    toks.push(format!("A{}", e.tok()));
                }
            }
        }
        let tokline = crate::util::list(toks.into_iter());
        match start {
            Start::Build => {
                let rt = tokio::runtime::Builder::new_multi_thread()
                    .worker_threads(2)
                    .enable_all()
                    .build()
                    .map_err(|e| format!("runtime: {}", e))?;
                let built = {
                    let _g = rt.enter();
                    b.build()
                };
                match built {
                    Ok((recorder, exporter)) => {
                        rt.spawn(exporter);
                        let marker = register_fixture(&recorder, label, big);
                        let handle = recorder.handle();
                        return Ok((
                            Listener {
                                rt: Some(rt),
                                port,
                                kind: final_kind,
                                handle: Some(handle),
                                marker,
                                marker_val: 0,
                                label: label.to_string(),
                                recorder: Some(recorder),
                                uds_path,
                            },
                            tokline,
                        ));
                    }
                    Err(e) => {
                        // port raced away (EADDRINUSE) → retry with a fresh one
                        last = format!("{:?}", e);
                        rt.shutdown_background();
                        if !ops.iter().any(|o| matches!(o, BOp::Listen | BOp::ListenDecoy | BOp::Uds)) {
                            return Err(format!("default-port-busy: {}", last));
                        }
                    }
                }
            }
            Start::InstallOwnRuntime | Start::InstallInRuntime => {
                // `install()` consumes the process-wide recorder slot: at most one call per process succeeds
                let res = if start == Start::InstallOwnRuntime {
                    std::thread::spawn(move || std::panic::catch_unwind(std::panic::AssertUnwindSafe(|| b.install())))
                        .join()
                        .unwrap_or_else(|p| Err(p))
                        .map(|r| (r, None))
                } else {
                    let rt = tokio::runtime::Builder::new_multi_thread()
                        .worker_threads(2)
                        .enable_all()
                        .build()
                        .map_err(|e| format!("runtime: {}", e))?;
                    let r = std::panic::catch_unwind(std::panic::AssertUnwindSafe(|| rt.block_on(async move { b.install() })));
                    r.map(|r| (r, Some(rt)))
                };
                let (res, rt) = match res {
                    Ok(x) => x,
                    Err(_) => return Err(format!("install() panicked ({:?})", start)),
                };
                let installed = match res {
                    Ok(()) => true,
                    Err(metrics_exporter_prometheus::BuildError::FailedToSetGlobalRecorder(_)) => false,
                    Err(e) => {
                        last = format!("{:?}", e);
                        if let Some(rt) = rt {
                            rt.shutdown_background();
                        }
                        continue;
                    }
                };
                let marker = if installed {
                    let m = metrics::counter!(MARKER, "case" => label.to_string());
                    metrics::gauge!("c18_gauge").set(-1.5);
                    metrics::histogram!("c18_hist").record(0.25);
                    m
                } else {
                    metrics::Counter::noop()
                };
                return Ok((
                    Listener {
                        rt,
                        port,
                        kind: final_kind,
                        handle: None,
                        marker,
                        marker_val: 0,
                        // an install() that lost the global slot still serves — from a recorder nobody can reach
                        label: if installed { label.to_string() } else { "<orphan>".to_string() },
                        recorder: None,
                        uds_path,
                    },
                    tokline,
                ));
            }
        }
    }
    Err(format!("could not start a listener after 25 attempts: {}", last))
}

fn connect_from_port(src: IpAddr, sport: u16, dst: SocketAddr) -> std::io::Result<TcpStream> {
    use socket2::{Domain, SockAddr, Socket, Type};
    let dom = if dst.is_ipv6() { Domain::IPV6 } else { Domain::IPV4 };
    let s = Socket::new(dom, Type::STREAM, None)?;
    s.set_reuse_address(true)?;
    s.bind(&SockAddr::from(SocketAddr::new(src, sport)))?;
    s.connect_timeout(&SockAddr::from(dst), CONNECT_TIMEOUT)?;
    let t: TcpStream = s.into();
    t.set_read_timeout(Some(IO_TIMEOUT))?;
    t.set_write_timeout(Some(IO_TIMEOUT))?;
    t.set_nodelay(true)?;
    Ok(t)
}

const METHODS: &[&str] = &["GET", "POST", "OPTIONS", "HEAD", "PUT", "DELETE", "PATCH", "TRACE", "FOO", "GET", "OPTIONS", "HEAD"];

/// request headers a denied peer might use to talk its way in (names lower-cased in the op)
fn gen_headers(r: &mut Rng, list: &Option<Vec<Entry>>) -> Vec<(String, String)> {
    let inside_ip = list
        .as_ref()
        .and_then(|es| es.first())
        .map(|e| Addr { v6: e.addr.v6, bits: e.lo_hi().0 }.ip().to_string())
        .unwrap_or_else(|| "127.0.0.1".to_string());
    let pool: Vec<(&str, String)> = vec![
        ("x-forwarded-for", inside_ip.clone()),
        ("x-real-ip", inside_ip.clone()),
        ("forwarded", format!("for={}", inside_ip)),
        ("authorization", "Basic YWRtaW46YWRtaW4=".to_string()),
        ("origin", "http://localhost".to_string()),
        ("access-control-request-method", "GET".to_string()),
        ("accept-encoding", "gzip, br".to_string()),
        ("range", "bytes=0-9".to_string()),
        ("content-length", "0".to_string()),
        ("x-health", "/health".to_string()),
        ("cookie", "allowed=1".to_string()),
        ("via", "1.1 127.0.0.1".to_string()),
    ];
    let mut hs = vec![];
    for _ in 0..r.range(0, 3) {
        let (k, v) = pool[r.below(pool.len())].clone();
        if !hs.iter().any(|(k2, _): &(String, String)| k2 == k) {
            hs.push((k.to_string(), v));
        }
    }
    hs
}

fn request_bytes(method: &str, target: &str, headers: &[(String, String)], close: bool) -> Vec<u8> {
    let mut s = format!("{} {} HTTP/1.1\r\nHost: c18.test\r\n", method, target);
    for (k, v) in headers {
        s.push_str(&format!("{}: {}\r\n", k, v));
    }
    if close {
        s.push_str("Connection: close\r\n");
    }
    s.push_str("\r\n");
    s.into_bytes()
}

fn header_value<'a>(head: &'a str, name: &str) -> Vec<&'a str> {
    head.split("\r\n").skip(1).filter_map(|l| l.split_once(':')).filter(|(k, _)| k.eq_ignore_ascii_case(name)).map(|(_, v)| v.trim()).collect()
}

/// classification of one response for the model + the oracles that need no model
fn classify(l: &Listener, method: &str, resp: &Resp, ctx: &str, out: &mut Out) -> String {
    let clen: Vec<&str> = header_value(&resp.head, "content-length");
    if method == "HEAD" {
        return if resp.status == 403 {
            if clen.iter().all(|c| *c == "0") { "403 empty".to_string() } else { "403 body".to_string() }
        } else if resp.status == 200 {
            "200 head".to_string()
        } else {
            format!("{} other", resp.status)
        };
    }
    if clen.len() != 1 || clen[0].parse::<usize>().ok() != Some(resp.body.len()) {
        out.oracle_fail("Content-Length does not match the body", &format!("{} :: {:?} vs {} body bytes", ctx, clen, resp.body.len()));
    }
    if resp.status == 403 {
        return if resp.body.is_empty() { "403 empty".to_string() } else { "403 body".to_string() };
    }
    if resp.status != 200 {
        return format!("{} other", resp.status);
    }
    let ct = header_value(&resp.head, "content-type");
    if ct != ["text/plain"] {
        out.oracle_fail("served response does not carry Content-Type: text/plain (exactly once)", &format!("{} :: {:?}", ctx, ct));
    }
    if resp.body == b"OK" {
        return "200 ok".to_string();
    }
    let body_txt = String::from_utf8_lossy(&resp.body).to_string();
    if let Some(h) = &l.handle {
        let now = h.render();
        if canonical(&body_txt) != canonical(&now) {
            out.oracle_fail(
                "served body differs from PrometheusHandle::render() at that time",
                &format!("{} :: body {:?} vs render {:?}", ctx, clip(&body_txt), clip(&now)),
            );
        }
    }
    match expo::check_exposition(&body_txt) {
        Ok(fams) => {
            let v = fams
                .iter()
                .find(|f| f.name == MARKER)
                .and_then(|f| f.samples.iter().find(|(_, ls, _)| ls.iter().any(|(k, v)| k == "case" && *v == l.label)))
                .map(|(_, _, v)| v.clone());
            match v {
                Some(v) => format!("200 render {}", v),
                None => "200 render-without-marker".to_string(),
            }
        }
        Err(e) => {
            out.oracle_fail("200 body is not well-formed exposition text", &format!("{} :: {}", ctx, e));
            "200 unparsable".to_string()
        }
    }
}

/// ORACLE for a whole request, independent of the model
fn judge(l: &Listener, allowed: bool, method: &str, target: &str, resp: &Resp, ans: &str, ctx: &str, out: &mut Out) {
    if !allowed {
        out.count("req:outside");
        if resp.status != 403 || !resp.body.is_empty() || ans != "403 empty" {
            out.oracle_fail(
                "peer outside every listed network did not get 403 with an empty body",
                &format!("{} :: got {} with {} body bytes ({})", ctx, resp.status, resp.body.len(), ans),
            );
        }
        if contains_metric_text(&resp.body) || contains_metric_text(resp.head.as_bytes()) {
            out.oracle_fail("metric data sent to a peer outside every listed network", ctx);
        }
        return;
    }
    out.count("req:served-expected");
    let want = if method == "HEAD" {
        "200 head".to_string()
    } else if path_of(target) == "/health" {
        "200 ok".to_string()
    } else if l.label == "<orphan>" {
        "200 render-without-marker".to_string()
    } else {
        format!("200 render {}", l.marker_val)
    };
    if ans != want {
        out.oracle_fail(
            "allowed peer was not served (200 with the current rendering, OK for /health)",
            &format!("{} :: got {:?}, expected {:?}", ctx, ans, want),
        );
    }
}

fn hdr_tok(hs: &[(String, String)]) -> String {
    crate::util::list(hs.iter().map(|(k, v)| format!("{}:{}", hexs(k), hexs(v))))
}

/// one whole request (any method, extra headers, chosen source port) on a fresh TCP connection
fn do_rq(
    l: &Listener,
    list: &Option<Vec<Entry>>,
    src: &Addr,
    sport: u16,
    method: &str,
    target: &str,
    headers: &[(String, String)],
    out: &mut Out,
) -> Option<(String, String)> {
    let (dst, seen) = l.route(src)?;
    let allowed = oracle_allowed2(list, src, &seen);
    let mut t = match connect_from_port(src.ip(), sport, dst) {
        Ok(t) => t,
        Err(e) if sport != 0 => {
            // privileged / busy port not available here: any port
            let _ = e;
            out.count("rq:source-port-unavailable");
            match connect_from_port(src.ip(), 0, dst) {
                Ok(t) => t,
                Err(_) => return None,
            }
        }
        Err(e) => {
            if matches!(e.kind(), std::io::ErrorKind::AddrNotAvailable | std::io::ErrorKind::InvalidInput) {
                out.count("peer:unbindable");
                return None;
            }
            UNANSWERED.fetch_add(1, std::sync::atomic::Ordering::Relaxed);
            out.oracle_fail("listener refused a connection", &format!("{} from {}: {}", method, src.ip(), e));
            return None;
        }
    };
    let port = t.local_addr().map(|a| a.port()).unwrap_or(0);
    if port < 1024 {
        out.count("rq:privileged-source-port");
    }
    let op = format!("allow rq {}/{} {} {} {}", seen.tok(), port, hexs(method), hexs(target), hdr_tok(headers));
    let ctx = format!(
        "allowlist [{}] listener {:?} peer {}:{} (seen as {}) {} {:?} headers {:?}",
        list.as_ref().map_or("<none>".to_string(), |es| es.iter().map(|e| e.text()).collect::<Vec<_>>().join(", ")),
        l.kind,
        src.ip(),
        port,
        seen.ip(),
        method,
        target,
        headers
    );
    out.count(&format!("rq:method-{}", method));
    let mut carry = vec![];
    let res = t
        .write_all(&request_bytes(method, target, headers, true))
        .map_err(|e| format!("write: {:?}", e.kind()))
        .and_then(|_| read_response_opt(&mut t, Instant::now() + IO_TIMEOUT, &mut carry, method == "HEAD"));
    let resp = match res {
        Ok(r) => r,
        Err(e) => {
            UNANSWERED.fetch_add(1, std::sync::atomic::Ordering::Relaxed);
            out.oracle_fail("well-formed request was not answered", &format!("{} :: {}", ctx, e));
            return Some((op, format!("noanswer {}", e.replace(' ', "_"))));
        }
    };
    if !carry.is_empty() {
        out.oracle_fail("bytes after the response", &format!("{} :: {} bytes", ctx, carry.len()));
    }
    let ans = classify(l, method, &resp, &ctx, out);
    judge(l, allowed, method, target, &resp, &ans, &ctx, out);
    Some((op, ans))
}

/// several requests on ONE connection (keep-alive, written at once = pipelined); TCP or unix
fn do_ka(
    l: &Listener,
    list: &Option<Vec<Entry>>,
    src: Option<&Addr>,
    reqs: &[(String, String)],
    out: &mut Out,
) -> Option<(String, String)> {
    do_conn(l, list, src, reqs, None, out)
}

/// how a half-closing client behaves: it writes its requests, waits `fin_after`, shuts down its write side (FIN;
/// the read side stays open) and then reads the answers until the server closes
#[derive(Clone, Copy, Debug)]
struct HalfClose {
    fin_after: Duration,
    /// `Connection: close` on the last request (a `printf … | nc` client sends none)
    close_header: bool,
}

/// several requests on ONE connection, TCP or unix.  `hc == None`: keep-alive client (op `allow ka`), the socket stays
/// fully open until every answer is read.  `hc == Some(..)`: the HALF-CLOSING client (op `allow hc`): complete,
/// well-formed requests followed by `shutdown(Write)` — what `printf 'GET /metrics HTTP/1.1\r\nHost: x\r\n\r\n' | nc`,
/// `socat - TCP:…`, HTTP/1.0-style clients and some health checkers do.  Every request of it is a well-formed request
/// of the property and must be answered like any other.
fn do_conn(
    l: &Listener,
    list: &Option<Vec<Entry>>,
    src: Option<&Addr>,
    reqs: &[(String, String)],
    hc: Option<HalfClose>,
    out: &mut Out,
) -> Option<(String, String)> {
    let mut bytes = vec![];
    for (i, (m, t)) in reqs.iter().enumerate() {
        bytes.extend_from_slice(&request_bytes(m, t, &[], i + 1 == reqs.len() && hc.map_or(true, |h| h.close_header)));
    }
    let dl = Instant::now() + IO_TIMEOUT;
    let mut answers: Vec<String> = vec![];
    let reqtok = crate::util::list(reqs.iter().map(|(m, t)| format!("{}:{}", hexs(m), hexs(t))));
    let (peer_tok, allowed, ctx);
    let mut carry = vec![];
    let what = if hc.is_some() { "half-closed" } else { "keep-alive" };
    let mut closed_after: Option<bool> = None;
    let mut run = |s: &mut dyn ReadWrite, allowed: bool, ctx: &str, out: &mut Out| -> Result<(), String> {
        s.write_all(&bytes).map_err(|e| format!("write: {:?}", e.kind()))?;
        if let Some(h) = hc {
            if !h.fin_after.is_zero() {
                std::thread::sleep(h.fin_after);
            }
            s.shut_wr().map_err(|e| format!("shutdown(Write): {:?}", e.kind()))?;
        }
        for (m, t) in reqs {
            let resp = read_response_opt(&mut *s, dl, &mut carry, m == "HEAD")?;
            let c = format!("{} :: request {} {:?} of a {} connection", ctx, m, t, what);
            let ans = classify(l, m, &resp, &c, out);
            judge(l, allowed, m, t, &resp, &ans, &c, out);
            answers.push(ans);
        }
        if hc.is_some() && carry.is_empty() {
            // the client has said it will send nothing more: does the server close once everything is answered?
            // (observation only — the property speaks about answers)
            let mut b = [0u8; 64];
            closed_after = Some(loop {
                match s.read(&mut b) {
                    Ok(0) => break true,
                    Ok(n) => {
                        carry.extend_from_slice(&b[..n]);
                        break false;
                    }
                    Err(e) if e.kind() == std::io::ErrorKind::Interrupted => {}
                    Err(_) => break false,
                }
            });
        }
        Ok(())
    };
    let res = match src {
        Some(src) => {
            let (dst, seen) = l.route(src)?;
            allowed = oracle_allowed2(list, src, &seen);
            let mut t = connect_from_port(src.ip(), 0, dst).ok()?;
            let port = t.local_addr().map(|a| a.port()).unwrap_or(0);
            peer_tok = format!("{}/{}", seen.tok(), port);
            ctx = format!("listener {:?} peer {} (seen as {})", l.kind, src.ip(), seen.ip());
            run(&mut t, allowed, &ctx, out)
        }
        None => {
            let path = l.uds_path.as_ref()?;
            allowed = true;
            peer_tok = "unix".to_string();
            ctx = format!("unix-socket listener {:?}", path);
            match std::os::unix::net::UnixStream::connect(path) {
                Ok(mut t) => {
                    let _ = t.set_read_timeout(Some(IO_TIMEOUT));
                    let _ = t.set_write_timeout(Some(IO_TIMEOUT));
                    run(&mut t, allowed, &ctx, out)
                }
                Err(e) => Err(format!("connect: {:?}", e.kind())),
            }
        }
    };
    let op = format!("allow {} {} {}", if hc.is_some() { "hc" } else { "ka" }, peer_tok, reqtok);
    if let Some(h) = hc {
        out.count("hc:connections");
        out.count_n("hc:requests", reqs.len() as u64);
        out.count(if h.fin_after.is_zero() { "hc:fin-at-once" } else { "hc:fin-delayed" });
        out.count(if allowed { "hc:allowed-peer" } else { "hc:denied-peer" });
        if reqs.iter().any(|(m, t)| allowed && m != "HEAD" && path_of(t) != "/health") {
            out.count("hc:with-rendering");
        }
        match closed_after {
            Some(true) => out.count("hc:server-closed-after-answers"),
            Some(false) => out.count("hc:server-kept-connection-open"),
            None => {}
        }
    } else {
        out.count("ka:connections");
        out.count_n("ka:requests", reqs.len() as u64);
    }
    match res {
        Ok(()) => {
            if !carry.is_empty() {
                out.oracle_fail("bytes after the last response on a connection", &format!("{} :: {} bytes", ctx, carry.len()));
            }
            Some((op, answers.join("|")))
        }
        Err(e) => {
            UNANSWERED.fetch_add(1, std::sync::atomic::Ordering::Relaxed);
            let sent: Vec<String> = reqs.iter().map(|(m, t)| format!("{} {}", m, t)).collect();
            out.oracle_fail(
                if hc.is_some() {
                    "complete well-formed request(s) followed by a half-close (FIN) were not all answered"
                } else {
                    "requests of a keep-alive connection were not all answered"
                },
                &format!("{} :: sent {:?}{} :: {} of {} answered, then {}", ctx, sent,
                    hc.map_or(String::new(), |h| format!(", then shutdown(Write) after {:?}", h.fin_after)),
                    answers.len(), reqs.len(), e),
            );
            Some((op, format!("noanswer {}", e.replace(' ', "_"))))
        }
    }
}

trait ReadWrite: Read + Write {
    /// `shutdown(SHUT_WR)`: FIN to the peer, the read side stays open
    fn shut_wr(&self) -> std::io::Result<()>;
}
impl ReadWrite for TcpStream {
    fn shut_wr(&self) -> std::io::Result<()> {
        self.shutdown(std::net::Shutdown::Write)
    }
}
impl ReadWrite for std::os::unix::net::UnixStream {
    fn shut_wr(&self) -> std::io::Result<()> {
        self.shutdown(std::net::Shutdown::Write)
    }
}

fn gen_half_close(r: &mut Rng) -> HalfClose {
    HalfClose {
        // at once (the FIN is in the socket before the server has read the request), or while the answer is being made
        fin_after: match r.below(4) {
            0 | 1 => Duration::ZERO,
            2 => Duration::from_micros(r.range(50, 2000) as u64),
            _ => Duration::from_millis(r.range(2, 25) as u64),
        },
        close_header: r.chance(1, 3),
    }
}

fn gen_ka_reqs(r: &mut Rng) -> Vec<(String, String)> {
    (0..r.range(2, 4)).map(|_| (r.pick_str(METHODS).to_string(), if r.chance(1, 3) { "/health".to_string() } else { gen_target(r) })).collect()
}

// --- accept errors: the process runs out of file descriptors while clients sit in the listen backlog ---------

#[repr(C)]
struct RLimit {
    cur: u64,
    max: u64,
}
extern "C" {
    fn getrlimit(resource: i32, rlim: *mut RLimit) -> i32;
    fn setrlimit(resource: i32, rlim: *const RLimit) -> i32;
}
#[cfg(target_os = "linux")]
const RLIMIT_NOFILE: i32 = 7;

/// Provokes real `accept()` errors (EMFILE) at the listener: `k` clients connect (the kernel completes the
/// handshakes into the backlog) and send their request while the process has no free descriptor, so every
/// `listener.accept()` fails; then the descriptors are released.  The property demands that these clients and
/// everybody after them are served.  Returns false when the errors could not be provoked (nothing is claimed then).
fn do_accept_errors(l: &mut Listener, list: &Option<Vec<Entry>>, peers: &[Addr], r: &mut Rng, out: &mut Out) -> bool {
    use socket2::{Domain, SockAddr, Socket, Type};
    let k = r.range(1, 3);
    let mut jobs: Vec<(Addr, SocketAddr, Addr, Socket)> = vec![];
    for _ in 0..k {
        let src = *r.pick(peers);
        let Some((dst, seen)) = l.route(&src) else { continue };
        let dom = if dst.is_ipv6() { Domain::IPV6 } else { Domain::IPV4 };
        let Ok(s) = Socket::new(dom, Type::STREAM, None) else { continue };
        if s.bind(&SockAddr::from(SocketAddr::new(src.ip(), 0))).is_err() {
            continue;
        }
        jobs.push((src, dst, seen, s));
    }
    if jobs.is_empty() {
        return false;
    }
    let mut old = RLimit { cur: 0, max: 0 };
    if unsafe { getrlimit(RLIMIT_NOFILE, &mut old) } != 0 {
        return false;
    }
    let max_fd = std::fs::read_dir("/proc/self/fd")
        .map(|d| d.filter_map(|e| e.ok()?.file_name().to_str()?.parse::<u64>().ok()).max().unwrap_or(0))
        .unwrap_or(0);
    if max_fd == 0 {
        return false;
    }
    // no descriptor number above the highest one in use, then fill every hole below it
    let low = RLimit { cur: (max_fd + 1).min(old.cur), max: old.max };
    if unsafe { setrlimit(RLIMIT_NOFILE, &low) } != 0 {
        return false;
    }
    let mut fill: Vec<std::fs::File> = vec![];
    while let Ok(f) = std::fs::File::open("/dev/null") {
        fill.push(f);
        if fill.len() > 100_000 {
            break;
        }
    }
    // the process is out of descriptors: connect + send (needs none)
    let mut streams: Vec<(Addr, Addr, TcpStream)> = vec![];
    for (src, dst, seen, s) in jobs {
        if s.connect_timeout(&SockAddr::from(dst), CONNECT_TIMEOUT).is_ok() {
            let mut t: TcpStream = s.into();
            let _ = t.set_nodelay(true);
            let _ = t.write_all(&request_bytes("GET", "/metrics", &[], true));
            streams.push((src, seen, t));
        }
    }
    // while exhausted nobody can be accepted: no answer may arrive (this is how the failing accept is observed)
    let mut provoked = !streams.is_empty();
    for (_, _, t) in streams.iter_mut() {
        let _ = t.set_read_timeout(Some(Duration::from_millis(120)));
        let mut b = [0u8; 1];
        match t.peek(&mut b) {
            Ok(n) if n > 0 => provoked = false,
            _ => {}
        }
    }
    drop(fill);
    unsafe { setrlimit(RLIMIT_NOFILE, &old) };
    if !provoked {
        out.count("accepterr:not-provoked");
        return false;
    }
    out.count("accepterr:provoked");
    out.op("allow accepterr 24", "ok");
    // the clients that sat in the backlog are served now …
    for (src, seen, mut t) in streams {
        let _ = t.set_read_timeout(Some(IO_TIMEOUT));
        let port = t.local_addr().map(|a| a.port()).unwrap_or(0);
        let op = format!("allow rq {}/{} {} {} .", seen.tok(), port, hexs("GET"), hexs("/metrics"));
        let allowed = oracle_allowed2(list, &src, &seen);
        let ctx = format!("client {} (seen as {}) connected while accept() was failing with EMFILE, listener {:?}", src.ip(), seen.ip(), l.kind);
        let mut carry = vec![];
        match read_response_opt(&mut t, Instant::now() + IO_TIMEOUT, &mut carry, false) {
            Ok(resp) => {
                let ans = classify(l, "GET", &resp, &ctx, out);
                judge(l, allowed, "GET", "/metrics", &resp, &ans, &ctx, out);
                out.op(&op, &ans);
            }
            Err(e) => {
                UNANSWERED.fetch_add(1, std::sync::atomic::Ordering::Relaxed);
                out.oracle_fail("client that connected during accept errors was never served", &format!("{} :: {}", ctx, e));
                out.op(&op, &format!("noanswer {}", e.replace(' ', "_")));
            }
        }
    }
    true
}

/// the unix-socket endpoint: every client is served whatever allowlist the builder was given
fn run_uds_case(r: &mut Rng, l: &mut Listener, list: &Option<Vec<Entry>>, out: &mut Out) {
    let Some(path) = l.uds_path.clone() else { return };
    let no_list: Option<Vec<Entry>> = None;
    let _ = list;
    for _ in 0..r.range(3, 6) {
        if r.chance(1, 2) {
            let n = r.range(1, 1000) as u64;
            l.marker.increment(n);
            l.marker_val += n;
            out.op(&format!("allow inc {}", n), "ok");
        }
        if r.chance(1, 3) {
            let reqs = gen_ka_reqs(r);
            // (round 6) half of these connections are half-closed by the client after the last request
            let hc = if r.chance(1, 2) { Some(gen_half_close(r)) } else { None };
            if let Some((op, ans)) = do_conn(l, &no_list, None, &reqs, hc, out) {
                out.op(&op, &ans);
            }
            continue;
        }
        let method = r.pick_str(METHODS);
        let target = if r.chance(1, 3) { "/health".to_string() } else { gen_target(r) };
        let headers = gen_headers(r, &no_list);
        let op = format!("allow rq unix {} {} {}", hexs(method), hexs(&target), hdr_tok(&headers));
        let ctx = format!("unix-socket listener {:?} {} {:?}", path, method, target);
        out.count("rq:unix");
        let res = std::os::unix::net::UnixStream::connect(&path).map_err(|e| format!("connect: {:?}", e.kind())).and_then(|mut t| {
            let _ = t.set_read_timeout(Some(IO_TIMEOUT));
            let _ = t.set_write_timeout(Some(IO_TIMEOUT));
            t.write_all(&request_bytes(method, &target, &headers, true)).map_err(|e| format!("write: {:?}", e.kind()))?;
            let mut carry = vec![];
            read_response_opt(&mut t, Instant::now() + IO_TIMEOUT, &mut carry, method == "HEAD")
        });
        match res {
            Ok(resp) => {
                let ans = classify(l, method, &resp, &ctx, out);
                judge(l, true, method, &target, &resp, &ans, &ctx, out);
                out.op(&op, &ans);
            }
            Err(e) => {
                UNANSWERED.fetch_add(1, std::sync::atomic::Ordering::Relaxed);
                out.oracle_fail("well-formed request on the unix socket was not answered", &format!("{} :: {}", ctx, e));
                out.op(&op, &format!("noanswer {}", e.replace(' ', "_")));
            }
        }
        // a garbage connection in between must not disturb the next client
        if r.chance(1, 3) {
            if let Ok(mut t) = std::os::unix::net::UnixStream::connect(&path) {
                let _ = t.write_all(b"\x16\x03\x01garbage\r\n\r\n");
                out.count("fault:unix-garbage");
            }
        }
    }
    // (round 6) `printf 'GET /metrics …' | socat - UNIX-CONNECT:path`: complete GET, then the write side is shut down
    if !gave_up() {
        let hc = HalfClose { fin_after: Duration::ZERO, close_header: false };
        if let Some((op, ans)) = do_conn(l, &no_list, None, &[("GET".to_string(), "/metrics".to_string())], Some(hc), out) {
            out.op(&op, &ans);
        }
    }
    // (round 5) overlapping scrapes over the unix socket
    if l.handle.is_some() && !gave_up() {
        do_overlap(l, &no_list, &[], false, r, out);
    }
    // a TCP client cannot reach this endpoint at all
    out.count("case:uds-endpoint");
}

/// order of the builder calls for a case: where the destination calls stand relative to `add_allowed_address`
fn gen_build_ops(r: &mut Rng, entries: &Option<Vec<Entry>>, uds_ok: bool, out: &mut Out) -> Vec<BOp> {
    let allows: Vec<BOp> = entries.as_ref().map_or(vec![], |es| es.iter().cloned().map(BOp::Allow).collect());
    let shape = r.weighted(&[3, 4, 3, 2, 2, if uds_ok { 2 } else { 0 }]);
    let mut ops: Vec<BOp> = vec![];
    match shape {
        0 => {
            out.count("build:listener-first");
            ops.push(BOp::Listen);
            ops.extend(allows);
        }
        1 => {
            out.count("build:listener-last");
            ops.extend(allows);
            ops.push(BOp::Listen);
        }
        2 => {
            out.count("build:listener-in-the-middle");
            let k = r.below(allows.len() + 1);
            ops.extend(allows[..k].iter().cloned());
            ops.push(BOp::Listen);
            ops.extend(allows[k..].iter().cloned());
        }
        3 => {
            out.count("build:listener-reconfigured");
            ops.push(BOp::ListenDecoy);
            ops.extend(allows);
            ops.push(BOp::Listen);
        }
        4 => {
            out.count("build:uds-then-back-to-tcp");
            let k = r.below(allows.len() + 1);
            ops.extend(allows[..k].iter().cloned());
            ops.push(BOp::Uds);
            ops.extend(allows[k..].iter().cloned());
            ops.push(BOp::Listen);
        }
        _ => {
            out.count("build:ends-in-uds");
            let k = r.below(allows.len() + 1);
            ops.extend(allows[..k].iter().cloned());
            if r.chance(1, 2) {
                ops.push(BOp::Listen);
            }
            ops.extend(allows[k..].iter().cloned());
            ops.push(BOp::Uds);
        }
    }
    ops
}

/// long allowlist: many blocks no peer of this machine is in, and one block that matters at a chosen position
fn gen_long_allowlist(r: &mut Rng, env: &Env) -> Vec<Entry> {
    let n = r.range(12, 70);
    let mut es: Vec<Entry> = (0..n)
        .map(|i| Entry { addr: Addr::v4(0x0a00_0000 | ((i as u32) << 8) | (r.below(256) as u32)), plen: Some(if r.chance(1, 4) { 32 } else { 24 }) })
        .collect();
    let mut hit = gen_entry_v4(r, env);
    hit.addr = Addr::v4(rand_lo4(r));
    if let Some(p) = hit.plen {
        hit.plen = Some(p.max(8));
    }
    let pos = match r.below(4) {
        0 => 0,
        1 => es.len(),
        2 => 8.min(es.len()),
        _ => r.below(es.len() + 1),
    };
    es.insert(pos, hit);
    es
}

/// `install()` on both of its branches (once per process each; at most one of them gets the global recorder slot)
fn run_install_cases(cfg: &Cfg, env: &Env, out: &mut Out) {
    let root = Rng::new(cfg.seed);
    let order = if cfg.seed % 2 == 0 { [Start::InstallOwnRuntime, Start::InstallInRuntime] } else { [Start::InstallInRuntime, Start::InstallOwnRuntime] };
    for (i, start) in order.into_iter().enumerate() {
        let mut r = root.fork(2_000_000 + i as u64);
        out.case(&format!("install={:?} seed={}", start, cfg.seed));
        let entries = vec![parse_entry_text("127.0.0.1"), parse_entry_text("127.9.0.0/16")];
        let list = Some(entries.clone());
        let mut ops: Vec<BOp> = entries.iter().cloned().map(BOp::Allow).collect();
        ops.push(BOp::Listen);
        let label = format!("install{}", i);
        let (mut l, toks) = match start_listener_ops(LKind::V4Lo, &ops, &label, false, start) {
            Ok(x) => x,
            Err(e) => {
                out.oracle_fail("install() did not start the scrape endpoint", &format!("{:?}: {}", start, e));
                continue;
            }
        };
        out.count(&format!("install:{:?}:{}", start, if l.label == "<orphan>" { "global-slot-taken" } else { "installed" }));
        let orphan = l.label == "<orphan>";
        if !orphan {
            out.op(&format!("allow build {}", toks), &format!("tcp {}", l.port));
        }
        let peers = [Addr::v4(0x7f00_0001), Addr::v4(0x7f09_0102), Addr::v4(0x7f00_0002), Addr::v4(0x7f0a_0000)];
        let mut keep = vec![];
        for round in 0..2 {
            for p in &peers {
                if !orphan && r.chance(1, 2) {
                    let n = r.range(1, 1000) as u64;
                    l.marker.increment(n);
                    l.marker_val += n;
                    out.op(&format!("allow inc {}", n), "ok");
                }
                let m = r.pick_str(METHODS);
                let t = if r.chance(1, 3) { "/health".to_string() } else { "/metrics".to_string() };
                if let Some((op, ans)) = do_rq(&l, &list, p, 0, m, &t, &gen_headers(&mut r, &list), out) {
                    if !orphan {
                        out.op(&op, &ans);
                    }
                }
            }
            if round == 0 {
                for kind in ["garbage", "halfopen", "reset", "partial"] {
                    if let Some(op) = do_fault(&l, &list, kind, r.pick(&peers), &mut r, out, &mut keep) {
                        if !orphan {
                            out.op(&op, "ok");
                        }
                    }
                }
                if !orphan {
                    do_accept_errors(&mut l, &list, &peers, &mut r, out);
                }
            }
        }
        let _ = env;
        // the listener of an installed exporter lives as long as the process: leave it
        std::mem::forget(l);
    }
}

// ---------------------------------------------------------------------------------------------
// round 5 (after seed C18-8): OVERLAPPING scrapes with an update in between — the body of a 200 response is a
// rendering taken AFTER the request arrived (`scrape_fresh`, `scrape_sees_completed_updates`).
//
// Client A's rendering is stopped in the middle of its walk over the registry (deterministically: a process-wide
// hook on the existing yield point `prom.render.gen_read` parks the first thread that reaches its k-th point; or,
// without the hook, by a registry so large that a rendering takes long enough).  While A is mid-rendering the
// application increments some series and the harness SEES the new values in `handle.render()`; a denied peer and
// a `/health` probe must be answered at once; then client B sends its GET.  B's body must show every update made
// before B was sent — whatever A's rendering holds.  A's own body may show each updated series old or new (its
// request arrived before the update); which ones it shows old tells the harness where A's loads stood, and the
// whole exchange is replayed on the model as a schedule of `carrive / cread / cupd / crespond` events.
// The freshness oracle does not depend on timing: on a tree where every request renders after it arrived, B can
// never fail it, however the threads are scheduled (only the power to detect depends on the overlap).

mod gate {
    use std::sync::atomic::{AtomicBool, AtomicUsize, Ordering};
    use std::sync::{Condvar, Mutex};
    use std::time::{Duration, Instant};

    pub const IDLE: u8 = 0;
    pub const ARMED: u8 = 1;
    pub const HOLDING: u8 = 2;

    pub struct G {
        pub state: u8,
        pub at: usize,
        pub seen: usize,
    }
    pub static G: Mutex<G> = Mutex::new(G { state: IDLE, at: 0, seen: 0 });
    pub static CV: Condvar = Condvar::new();
    /// fast path: the mutex is only touched while a gate is armed
    pub static ACTIVE: AtomicBool = AtomicBool::new(false);
    /// points seen since the last reset (calibration: points per rendering)
    pub static POINTS: AtomicUsize = AtomicUsize::new(0);
    /// a parked rendering is let go after this long whatever happens (the harness releases it much earlier)
    pub const HOLD_MAX: Duration = Duration::from_secs(20);

    pub fn hook(id: &'static str) {
        if id != "prom.render.gen_read" {
            return;
        }
        POINTS.fetch_add(1, Ordering::Relaxed);
        if !ACTIVE.load(Ordering::Acquire) {
            return;
        }
        let mut g = G.lock().unwrap_or_else(|e| e.into_inner());
        if g.state != ARMED {
            return;
        }
        g.seen += 1;
        if g.seen < g.at {
            return;
        }
        g.state = HOLDING;
        CV.notify_all();
        let deadline = Instant::now() + HOLD_MAX;
        while g.state == HOLDING {
            let left = deadline.saturating_duration_since(Instant::now());
            if left.is_zero() {
                g.state = IDLE;
                break;
            }
            g = CV.wait_timeout(g, left).unwrap_or_else(|e| e.into_inner()).0;
        }
    }

    pub fn arm(at: usize) {
        let mut g = G.lock().unwrap_or_else(|e| e.into_inner());
        *g = G { state: ARMED, at, seen: 0 };
        ACTIVE.store(true, Ordering::Release);
    }

    /// waits until a rendering is parked at the gate; false if none arrived in time
    pub fn wait_held(max: Duration) -> bool {
        let deadline = Instant::now() + max;
        let mut g = G.lock().unwrap_or_else(|e| e.into_inner());
        while g.state == ARMED {
            let left = deadline.saturating_duration_since(Instant::now());
            if left.is_zero() {
                break;
            }
            g = CV.wait_timeout(g, left).unwrap_or_else(|e| e.into_inner()).0;
        }
        g.state == HOLDING
    }

    pub fn release() {
        let mut g = G.lock().unwrap_or_else(|e| e.into_inner());
        g.state = IDLE;
        ACTIVE.store(false, Ordering::Release);
        CV.notify_all();
    }
}

/// how a client reaches the endpoint
#[derive(Clone)]
enum Via {
    Tcp(IpAddr, SocketAddr),
    Unix(std::path::PathBuf),
}

fn scrape_via(via: &Via, target: &str, timeout: Duration) -> Result<Resp, String> {
    match via {
        Via::Tcp(src, dst) => {
            let mut t = connect_from(Some(*src), *dst).map_err(|e| format!("connect: {:?} {}", e.kind(), e))?;
            t.write_all(&get_request(target, true)).map_err(|e| format!("write: {:?}", e.kind()))?;
            let mut carry = vec![];
            read_response_carry(&mut t, Instant::now() + timeout, &mut carry)
        }
        Via::Unix(path) => {
            let mut t = std::os::unix::net::UnixStream::connect(path).map_err(|e| format!("connect: {:?}", e.kind()))?;
            let _ = t.set_read_timeout(Some(timeout));
            let _ = t.set_write_timeout(Some(timeout));
            t.write_all(&get_request(target, true)).map_err(|e| format!("write: {:?}", e.kind()))?;
            let mut carry = vec![];
            read_response_carry(&mut t, Instant::now() + timeout, &mut carry)
        }
    }
}

const OV: &str = "c18_ov";
static OV_ROUND: std::sync::atomic::AtomicUsize = std::sync::atomic::AtomicUsize::new(0);
static THOROUGH: std::sync::atomic::AtomicBool = std::sync::atomic::AtomicBool::new(false);

/// values of the overlap series of round `round` in a body, by index; `None` = series not in the body
fn ov_values(body: &[u8], round: usize, m: usize) -> Vec<Option<u64>> {
    let mut vals = vec![None; m];
    let text = String::from_utf8_lossy(body);
    let rtag = format!("r=\"{}\"", round);
    for line in text.lines() {
        if !line.starts_with("c18_ov{") || !line.contains(&rtag) {
            continue;
        }
        let Some(ipos) = line.find("i=\"") else { continue };
        let rest = &line[ipos + 3..];
        let Some(iend) = rest.find('"') else { continue };
        let Ok(i) = rest[..iend].parse::<usize>() else { continue };
        let Some(v) = line.rsplit(' ').next().and_then(|v| v.parse::<u64>().ok()) else { continue };
        if i < m {
            vals[i] = Some(v);
        }
    }
    vals
}

/// the answer line of the `stepC` layer for a response
fn ov_answer(resp: &Resp, round: usize, m: usize) -> (String, Vec<Option<u64>>) {
    if resp.status == 403 {
        return (if resp.body.is_empty() { "403 empty".to_string() } else { "403 body".to_string() }, vec![]);
    }
    if resp.status == 200 && resp.body == b"OK" {
        return ("200 ok".to_string(), vec![]);
    }
    if resp.status == 200 {
        let vals = ov_values(&resp.body, round, m);
        let txt = vals.iter().map(|v| v.map_or("~".to_string(), |v| v.to_string())).collect::<Vec<_>>().join(",");
        return (format!("200 render {}", txt), vals);
    }
    (format!("{} other", resp.status), vec![])
}

/// one overlap scenario on a running endpoint; `unix`: the endpoint is a unix socket.  `free_running`: no gate —
/// the registry is filled until a rendering takes long enough and A is given a head start of a quarter rendering.
fn do_overlap(l: &Listener, list: &Option<Vec<Entry>>, peers: &[Addr], free_running: bool, r: &mut Rng, out: &mut Out) {
    let (Some(h), Some(rec)) = (l.handle.as_ref(), l.recorder.as_ref()) else { return };
    // who can be served here?
    let mut served: Vec<(Via, String)> = vec![];
    let mut anyone: Vec<(Via, String, bool)> = vec![];
    if let Some(p) = &l.uds_path {
        served.push((Via::Unix(p.clone()), "unix".to_string()));
        anyone.push((Via::Unix(p.clone()), "unix".to_string(), true));
    } else {
        for p in peers {
            let Some((dst, seen)) = l.route(p) else { continue };
            // only addresses this machine can really bind
            if connect_from(Some(p.ip()), dst).is_err() {
                continue;
            }
            let ok = oracle_allowed2(list, p, &seen);
            let tok = format!("{}/0", seen.tok());
            if ok {
                served.push((Via::Tcp(p.ip(), dst), tok.clone()));
            }
            anyone.push((Via::Tcp(p.ip(), dst), tok, ok));
        }
    }
    if served.is_empty() {
        out.count("overlap:no-allowed-peer");
        return;
    }
    let round = OV_ROUND.fetch_add(1, std::sync::atomic::Ordering::Relaxed);
    let m = r.range(2, 9);
    let mut old: Vec<u64> = vec![];
    let mut ctrs: Vec<metrics::Counter> = vec![];
    for i in 0..m {
        let k = Key::from_parts(
            OV,
            vec![Label::new("case", l.label.clone()), Label::new("r", round.to_string()), Label::new("i", i.to_string())],
        );
        let c = rec.register_counter(&k, &METADATA);
        let v = r.range(1, 100000) as u64;
        c.increment(v);
        old.push(v);
        ctrs.push(c);
    }
    if free_running {
        // filler until a rendering takes at least ~120 ms (bounded: 60k series)
        let mut n = 0u32;
        loop {
            let t0 = Instant::now();
            let _ = h.render();
            if t0.elapsed() >= Duration::from_millis(120) || n >= 60_000 {
                break;
            }
            for _ in 0..5000 {
                let k = Key::from_parts("c18_fill", vec![Label::new("r", round.to_string()), Label::new("n", n.to_string())]);
                rec.register_counter(&k, &METADATA).increment(1);
                n += 1;
            }
        }
        out.count_n("overlap:filler-series", n as u64);
    }
    // points per rendering (one per counter and gauge): where the gate can stand
    metrics::verif::set_hook(Some(gate::hook));
    gate::POINTS.store(0, std::sync::atomic::Ordering::Relaxed);
    let t0 = Instant::now();
    let _ = h.render();
    let render_time = t0.elapsed();
    let points = gate::POINTS.load(std::sync::atomic::Ordering::Relaxed);
    // the gauge loop comes after the counter loop: a gate at the LAST point (the fixture's one gauge) stands after
    // every counter was loaded, a gate at point 1 before any
    let at = if free_running || points == 0 {
        0
    } else {
        match r.below(4) {
            0 | 1 => points,
            2 => r.range(1, points),
            _ => r.range((points + 1) / 2, points),
        }
    };
    let pick_target = |r: &mut Rng| -> String {
        loop {
            let t = gen_target(r);
            if path_of(&t) != "/health" && t.len() < 2000 {
                return t;
            }
        }
    };
    let (via_a, tok_a) = r.pick(&served).clone();
    let (via_b, tok_b) = r.pick(&served).clone();
    let target_a = if r.chance(1, 2) { "/metrics".to_string() } else { pick_target(r) };
    let target_b = if r.chance(1, 2) { "/metrics".to_string() } else { pick_target(r) };
    let long = IO_TIMEOUT + gate::HOLD_MAX;
    if at > 0 {
        gate::arm(at);
    }
    let ta = {
        let (via, target) = (via_a.clone(), target_a.clone());
        std::thread::spawn(move || scrape_via(&via, &target, long))
    };
    let held = if at > 0 {
        gate::wait_held(Duration::from_secs(6))
    } else {
        std::thread::sleep(render_time / 4);
        false
    };
    if !held {
        // nobody is parked: take the gate away before the harness itself renders
        gate::release();
    }
    out.count(if at == 0 { "overlap:free-running" } else if held { "overlap:gated" } else { "overlap:gate-not-reached" });
    // the update, completed and SEEN before B is sent
    let mut delta: Vec<u64> = vec![0; m];
    let n_upd = r.range(1, m);
    let mut idx: Vec<usize> = (0..m).collect();
    for j in 0..n_upd {
        let pick = j + r.below(m - j);
        idx.swap(j, pick);
        let d = r.range(1, 1000) as u64;
        ctrs[idx[j]].increment(d);
        delta[idx[j]] = d;
    }
    let new: Vec<u64> = old.iter().zip(delta.iter()).map(|(o, d)| o + d).collect();
    let seen_now = ov_values(h.render().as_bytes(), round, m);
    if seen_now.iter().zip(new.iter()).any(|(s, n)| *s != Some(*n)) {
        out.oracle_fail(
            "PrometheusHandle::render() does not show completed increments",
            &format!("series {:?} after increments {:?}: render shows {:?}", old, delta, seen_now),
        );
    }
    // while A is mid-rendering: a denied peer and a /health probe are answered at once
    let mut between: Vec<(String, String, String)> = vec![];
    for _ in 0..r.below(3) {
        let (via, tok, ok) = r.pick(&anyone).clone();
        let target = if r.chance(1, 2) || !ok { "/health".to_string() } else { "/health?x=1".to_string() };
        let target = if !ok && r.chance(1, 2) { "/metrics".to_string() } else { target };
        match scrape_via(&via, &target, IO_TIMEOUT) {
            Ok(resp) => {
                let (ans, _) = ov_answer(&resp, round, m);
                let want = if ok { "200 ok" } else { "403 empty" };
                if ans != want {
                    out.oracle_fail(
                        "request that needs no rendering answered wrongly while another client's rendering was in progress",
                        &format!("peer {} allowed={} target {:?} → {:?}", tok, ok, target, ans),
                    );
                }
                between.push((tok, target, ans));
                out.count("overlap:probe-during-rendering");
            }
            Err(e) if e.starts_with("connect: AddrNotAvailable") || e.starts_with("connect: InvalidInput") => {}
            Err(e) => {
                UNANSWERED.fetch_add(1, std::sync::atomic::Ordering::Relaxed);
                out.oracle_fail(
                    "request that needs no rendering was not answered while another client's rendering was in progress",
                    &format!("peer {} allowed={} target {:?} :: {}", tok, ok, target, e),
                );
            }
        }
    }
    // client B: sent now, after the update
    let (txb, rxb) = std::sync::mpsc::channel();
    {
        let (via, target) = (via_b.clone(), target_b.clone());
        std::thread::spawn(move || {
            let _ = txb.send(scrape_via(&via, &target, long));
        });
    }
    // B may answer while A is still parked (every request renders for itself) or only after A is let go (renderings
    // one at a time): both are fine; A is let go after a wait that is long for a loopback exchange
    let early = if held { rxb.recv_timeout(Duration::from_millis(if render_time > Duration::from_millis(100) { 1500 } else { 400 })).ok() } else { None };
    let b_first = early.is_some();
    gate::release();
    let res_b = match early {
        Some(x) => x,
        None => rxb.recv_timeout(long).unwrap_or_else(|_| Err("scraper thread gave no result".into())),
    };
    let res_a = ta.join().unwrap_or_else(|_| Err("scraper thread panicked".into()));
    metrics::verif::set_hook(None);
    let ctx = format!(
        "{} series of {:?} at {:?} (a rendering: {} points, {:?}); client A {} GET {:?} {}; then increments {:?} (seen in render()); then client B {} GET {:?}",
        m,
        OV,
        old,
        points,
        render_time,
        tok_a,
        target_a,
        if at == 0 { "running freely, head start of a quarter rendering".to_string() } else if held { format!("parked at point {} of its rendering", at) } else { format!("gate at point {} not reached", at) },
        delta,
        tok_b,
        target_b
    );
    let (resp_a, resp_b) = match (res_a, res_b) {
        (Ok(a), Ok(b)) => (a, b),
        (a, b) => {
            UNANSWERED.fetch_add(1, std::sync::atomic::Ordering::Relaxed);
            out.oracle_fail(
                "overlapping scrapes were not both answered",
                &format!("{} :: A {:?} B {:?}", ctx, a.as_ref().map(|x| x.status), b.as_ref().map(|x| x.status)),
            );
            return;
        }
    };
    let (ans_a, vals_a) = ov_answer(&resp_a, round, m);
    let (ans_b, vals_b) = ov_answer(&resp_b, round, m);
    // ORACLES, independent of the model
    let stale_b: Vec<usize> = (0..m).filter(|i| vals_b.get(*i).copied().flatten() != Some(new[*i])).collect();
    if resp_b.status != 200 || !stale_b.is_empty() {
        out.oracle_fail(
            "200 body is OLDER than the request: an update completed (and seen) before the GET was sent is missing from it",
            &format!("{} :: B got {:?}, series are {:?} (stale: {:?}); A got {:?}", ctx, ans_b, new, stale_b, ans_a),
        );
    }
    let odd_a: Vec<usize> = (0..m)
        .filter(|i| {
            let v = vals_a.get(*i).copied().flatten();
            v != Some(new[*i]) && v != Some(old[*i])
        })
        .collect();
    if resp_a.status != 200 || !odd_a.is_empty() {
        out.oracle_fail(
            "200 body shows a value the series never had between the request and the response",
            &format!("{} :: A got {:?}, series were {:?} then {:?} (odd: {:?})", ctx, ans_a, old, new, odd_a),
        );
    }
    for (resp, who) in [(&resp_a, "A"), (&resp_b, "B")] {
        if resp.status == 200 && resp.body.len() < (1 << 20) {
            if let Err(e) = expo::check_exposition(&String::from_utf8_lossy(&resp.body)) {
                out.oracle_fail("200 body of an overlapping scrape is not well-formed exposition text", &format!("{} :: {} :: {}", ctx, who, e));
            }
        }
    }
    // the exchange as a schedule of the model's events
    out.op(&format!("allow cnew {}", crate::util::list(old.iter().map(|v| v.to_string()))), "ok");
    out.op(&format!("allow carrive 1 {} {}", tok_a, hexs(&target_a)), "ok");
    let mut a_before = 0;
    for i in 0..m {
        if delta[i] > 0 && vals_a.get(i).copied().flatten() == Some(old[i]) {
            out.op(&format!("allow cread 1 {}", i), "ok");
            a_before += 1;
        }
    }
    for i in 0..m {
        if delta[i] > 0 {
            out.op(&format!("allow cupd {} {}", i, delta[i]), "ok");
        }
    }
    for (j, (tok, target, ans)) in between.iter().enumerate() {
        out.op(&format!("allow carrive {} {} {}", 10 + j, tok, hexs(target)), "ok");
        out.op(&format!("allow crespond {}", 10 + j), ans);
    }
    out.op(&format!("allow carrive 2 {} {}", tok_b, hexs(&target_b)), "ok");
    if b_first {
        out.op("allow creadall 2", "ok");
        out.op("allow crespond 2", &ans_b);
        out.op("allow creadall 1", "ok");
        out.op("allow crespond 1", &ans_a);
    } else {
        out.op("allow creadall 1", "ok");
        out.op("allow crespond 1", &ans_a);
        out.op("allow creadall 2", "ok");
        out.op("allow crespond 2", &ans_b);
    }
    out.count("overlap:scenarios");
    out.count(if b_first { "overlap:B-answered-while-A-parked" } else { "overlap:B-answered-after-A" });
    out.count(if a_before == 0 { "overlap:A-shows-all-updates" } else if a_before == n_upd { "overlap:A-shows-no-update" } else { "overlap:A-shows-some-updates" });
    out.count_n("overlap:updated-series", n_upd as u64);
}

// ---------------------------------------------------------------------------------------------
// cases

struct CaseSpec {
    kind: LKind,
    entries: Vec<Entry>,
    has_list: bool,
    /// extra invalid entries tried on throw-away builders
    invalid: Vec<Entry>,
    n_peers: usize,
    n_scrapes: usize,
    faults: usize,
    /// `None`: the classic chain `with_http_listener(..).add_allowed_address(..)*` (op `allow new`);
    /// `Some(true)`: a generated order of builder calls (op `allow build`), possibly ending in a unix socket;
    /// `Some(false)`: no destination call at all — the builder's default `0.0.0.0:9000`
    build_order: Option<bool>,
    /// several hundred KB of rendering
    big: bool,
}

fn run_case(r: &mut Rng, env: &Env, spec: CaseSpec, tag: &str, out: &mut Out) {
    out.case(tag);
    // 1. every entry through add_allowed_address on a throw-away builder (the builder is consumed on Err)
    let mut accepted: Vec<Entry> = vec![];
    for (idx, e) in spec.entries.iter().chain(spec.invalid.iter()).enumerate() {
        let res = PrometheusBuilder::new().add_allowed_address(e.text());
        let ok = res.is_ok();
        out.op(&format!("allow parse {}", e.tok()), if ok { "ok" } else { "err" });
        out.count(match (e.plen.is_some(), e.addr.v6) {
            (false, false) => "entry:plain-v4",
            (true, false) => "entry:cidr-v4",
            (false, true) => "entry:plain-v6",
            (true, true) => "entry:cidr-v6",
        });
        if let Some(p) = e.plen {
            if p <= e.addr.width() && e.lo_hi().0 != e.addr.bits {
                out.count("entry:cidr-nonzero-host-bits");
            }
        }
        if e.documented() && !ok {
            out.oracle_fail(
                "add_allowed_address rejected an entry in the documented syntax (IP address or subnet)",
                &format!("entry {:?} → {}", e.text(), res.err().map(|e| e.to_string()).unwrap_or_default()),
            );
        }
        if !e.documented() && ok {
            out.oracle_fail("add_allowed_address accepted a prefix length beyond the address width", &format!("entry {:?}", e.text()));
        }
        if ok && idx < spec.entries.len() {
            accepted.push(e.clone());
        }
    }
    // text outside the documented syntax: must be an error (never a panic, never silently accepted)
    if tag.starts_with("corpus=0 ") {
        for bad in [
            "", " ", "localhost", "127.0.0.1/", "/8", "127.0.0.1/8/8", "127.0.0.1 ", " 127.0.0.1", "127.0.0/8", "127.0.0.1/-1",
            "127.0.0.1/+8", "127.0.0.256", "::1/", "[::1]", "127.0.0.1:80", "::1%lo", "127.0.0.1/255.0.0.0", "1.2.3.4.5",
            "0x7f.0.0.1", "127.0.0.1/ 8", ":::1", "12345::1",
        ] {
            out.count("entry:undocumented-text");
            if PrometheusBuilder::new().add_allowed_address(bad).is_ok() {
                out.oracle_fail("add_allowed_address accepted text that is neither an IP address nor a subnet", &format!("{:?}", bad));
            }
        }
    }
    let list: Option<Vec<Entry>> = if spec.has_list && !(accepted.is_empty() && !spec.entries.is_empty()) {
        Some(accepted)
    } else if spec.has_list {
        // every entry was rejected: an allowlist with no usable entry cannot be configured through the API
        out.count("allowlist:all-entries-rejected");
        return;
    } else {
        None
    };
    // 2. the listener
    let label = format!("{}", out.n_cases);
    let mut l = match spec.build_order {
        None if !spec.big => {
            let l = match start_listener(spec.kind, &list, &label) {
                Ok(l) => l,
                Err(e) => {
                    out.oracle_fail("listener could not be started", &e);
                    return;
                }
            };
            out.op(
                &format!("allow new {}", match &list {
                    None => "~".to_string(),
                    Some(es) => crate::util::list(es.iter().map(|e| e.tok())),
                }),
                "ok",
            );
            l
        }
        order => {
            let ops: Vec<BOp> = match order {
                Some(true) => gen_build_ops(r, &list, true, out),
                Some(false) => list.as_ref().map_or(vec![], |es| es.iter().cloned().map(BOp::Allow).collect()),
                None => {
                    let mut o = vec![BOp::Listen];
                    o.extend(list.as_ref().map_or(vec![], |es| es.iter().cloned().map(BOp::Allow).collect()));
                    o
                }
            };
            let kind = if order == Some(false) { LKind::V4Any } else { spec.kind };
            let (l, toks) = match start_listener_ops(kind, &ops, &label, spec.big, Start::Build) {
                Ok(x) => x,
                Err(e) if e.starts_with("default-port-busy") => {
                    // somebody else on this machine listens on 9000: nothing to observe
                    out.count("build:default-port-busy");
                    return;
                }
                Err(e) => {
                    out.oracle_fail("listener could not be started", &e);
                    return;
                }
            };
            // what was built is observed from outside: a unix socket at the path / a TCP listener on the port
            let observed = if let Some(p) = &l.uds_path {
                if std::os::unix::net::UnixStream::connect(p).is_ok() { "uds".to_string() } else { "nothing-listens".to_string() }
            } else {
                let probe: SocketAddr = match l.kind {
                    LKind::V6Lo | LKind::Dual => SocketAddr::new(IpAddr::V6(Ipv6Addr::LOCALHOST), l.port),
                    _ => SocketAddr::from(([127, 0, 0, 1], l.port)),
                };
                if TcpStream::connect_timeout(&probe, CONNECT_TIMEOUT).is_ok() { format!("tcp {}", l.port) } else { "nothing-listens".to_string() }
            };
            out.op(&format!("allow build {}", toks), &observed);
            if observed == "nothing-listens" {
                out.oracle_fail("the built endpoint does not accept connections", &format!("builder calls {}", toks));
                return;
            }
            if spec.big {
                out.count("case:big-rendering");
            }
            if order == Some(false) {
                out.count("build:default-address");
            }
            l
        }
    };
    out.count(&format!("listener:{:?}", l.kind));
    if l.kind == LKind::Uds {
        run_uds_case(r, &mut l, &list, out);
        return;
    }
    let peers = gen_peers(r, env, &list, spec.n_peers);
    if peers.is_empty() {
        out.count("case:no-peer");
        return;
    }
    let mut keep: Vec<TcpStream> = vec![];
    let mut seen_in = false;
    let mut seen_out = false;
    let mut n_done = 0;
    let mut step = |l: &mut Listener, r: &mut Rng, out: &mut Out, peer: &Addr, target: &str| {
        if gave_up() {
            return;
        }
        if r.chance(1, 2) {
            let n = r.range(1, 1000) as u64;
            l.marker.increment(n);
            l.marker_val += n;
            out.op(&format!("allow inc {}", n), "ok");
        }
        let res = if r.chance(1, 5) {
            // (round 6) the same request from a client that half-closes after it
            let method = if r.chance(2, 3) { "GET" } else { r.pick_str(METHODS) };
            let hc = gen_half_close(r);
            do_conn(l, &list, Some(peer), &[(method.to_string(), target.to_string())], Some(hc), out)
        } else if r.chance(1, 2) {
            let method = r.pick_str(METHODS);
            let sport = if r.chance(1, 3) { r.range(1, 1023) as u16 } else { 0 };
            let hs = gen_headers(r, &list);
            do_rq(l, &list, peer, sport, method, target, &hs, out)
        } else {
            do_scrape(l, &list, peer, target, out)
        };
        if let Some((op, ans)) = res {
            out.op(&op, &ans);
            if ans.starts_with("403") {
                seen_out = true;
            } else {
                seen_in = true;
            }
            n_done += 1;
        }
    };
    // every peer asks for a rendering and for /health, then random (peer, target) pairs
    for p in &peers {
        let t = gen_target(r);
        step(&mut l, r, out, p, &t);
        if r.chance(1, 2) {
            step(&mut l, r, out, p, "/health");
        }
    }
    for _ in 0..spec.n_scrapes {
        let p = *r.pick(&peers);
        let t = gen_target(r);
        step(&mut l, r, out, &p, &t);
    }
    // (round 6) in every case: `printf 'GET /metrics HTTP/1.1\r\nHost: c18.test\r\n\r\n' | nc` — a complete GET, FIN at once
    if !gave_up() {
        let p = *r.pick(&peers);
        let hc = HalfClose { fin_after: Duration::ZERO, close_header: false };
        if let Some((op, ans)) = do_conn(&l, &list, Some(&p), &[("GET".to_string(), "/metrics".to_string())], Some(hc), out) {
            out.op(&op, &ans);
        }
    }
    // 2b. (round 5) overlapping scrapes with an update in between: every hand-picked configuration, half of the others
    if l.handle.is_some() && !gave_up() && (tag.starts_with("corpus") || r.chance(1, 2)) {
        do_overlap(&l, &list, &peers, false, r, out);
        if (THOROUGH.load(std::sync::atomic::Ordering::Relaxed) && r.chance(1, 12)) || tag.starts_with("corpus=9 ") {
            do_overlap(&l, &list, &peers, true, r, out);
        }
    }
    // 3. faults, then an allowed peer must still be served
    if spec.faults > 0 {
        for _ in 0..spec.faults {
            let kind = r.pick_str(FAULTS2);
            let p = *r.pick(&peers);
            if kind == "accepterr" {
                do_accept_errors(&mut l, &list, &peers, r, out);
                continue;
            }
            if kind == "ka" {
                let reqs = gen_ka_reqs(r);
                if let Some((op, ans)) = do_ka(&l, &list, Some(&p), &reqs, out) {
                    out.op(&op, &ans);
                }
                continue;
            }
            if kind == "hc" {
                // one to three requests (pipelined), then FIN
                let reqs = if r.chance(1, 2) { gen_ka_reqs(r) } else { vec![("GET".to_string(), gen_target(r))] };
                let hc = gen_half_close(r);
                if let Some((op, ans)) = do_conn(&l, &list, Some(&p), &reqs, Some(hc), out) {
                    out.op(&op, &ans);
                }
                continue;
            }
            if kind == "flood" {
                // (round 3, after seed C18-5) a long run of connections that each end in an error on the server side:
                // anything the listener accumulates per failed connection (a leaked permit, a counter that is only
                // decremented on the success path, a task that never ends) shows only after dozens or hundreds of them
                let n = r.range(70, 320);
                for _ in 0..n {
                    let k2 = *r.pick(&["reset", "abort", "reset", "abort", "badrequest"]);
                    let q = *r.pick(&peers);
                    if k2 == "badrequest" {
                        if let Some((dst, seen)) = l.route(&q) {
                            if let Ok(mut t) = connect_from(Some(q.ip()), dst) {
                                let _ = t.write_all(b"\x00\x01 not http\r\n\r\n");
                                drop(t);
                                out.op(&format!("allow fault garbage {}", seen.tok()), "ok");
                            }
                        }
                    } else if let Some(op) = do_fault(&l, &list, k2, &q, r, out, &mut keep) {
                        out.op(&op, "ok");
                    }
                }
                out.count("fault:flood");
                out.count_n("fault:flood-connections", n as u64);
                continue;
            }
            if kind == "concurrent" {
                do_concurrent(&l, &list, &peers, r, out);
                out.op(&format!("allow fault concurrent {}", l.route(&p).map_or(p, |x| x.1).tok()), "ok");
                out.count("fault:concurrent");
                continue;
            }
            let reps = if matches!(kind, "halfopen" | "partial" | "reset") { r.range(1, 12) } else { 1 };
            for _ in 0..reps {
                if let Some(op) = do_fault(&l, &list, kind, &p, r, out, &mut keep) {
                    out.op(&op, "ok");
                    out.count(&format!("fault:{}", kind));
                }
            }
        }
        // later clients: every peer again (allowed ones must be served the current rendering)
        let t0 = Instant::now();
        for p in &peers {
            let t = if r.chance(1, 4) { "/health".to_string() } else { "/metrics".to_string() };
            step(&mut l, r, out, p, &t);
        }
        if t0.elapsed() > IO_TIMEOUT {
            out.oracle_fail("clients after a fault sequence were served too slowly", &format!("{:?}", t0.elapsed()));
        }
        out.count("case:with-faults");
    }
    drop(keep);
    let _ = &l.recorder;
    if list.is_some() && seen_in && seen_out && n_done >= 3 {
        out.nontrivial();
    }
}

/// hand-picked configurations: the design-round finding first
fn corpus(env: &Env) -> Vec<(LKind, Vec<&'static str>, bool)> {
    let mut c: Vec<(LKind, Vec<&'static str>, bool)> = vec![
        (LKind::V4Lo, vec!["127.0.0.1"], true),
        (LKind::V4Lo, vec!["127.0.0.1/32"], true),
        (LKind::V4Lo, vec!["127.0.0.0/8"], true),
        (LKind::V4Lo, vec!["0.0.0.0/0"], true),
        (LKind::V4Lo, vec![], false),
        (LKind::V4Lo, vec!["127.0.0.2/31"], true),
        (LKind::V4Lo, vec!["127.1.2.3/8"], true),
        (LKind::V4Lo, vec!["127.1.2.3/16", "127.1.2.3"], true),
        (LKind::V4Lo, vec!["127.0.0.0/30", "127.0.0.4/30", "127.0.0.6"], true),
        (LKind::V4Lo, vec!["127.0.1.0/24", "127.0.0.0/23", "127.0.1.128/25", "127.0.1.255"], true),
        (LKind::V4Lo, vec!["10.0.0.0/8", "192.168.0.0/16"], true),
        (LKind::V4Lo, vec!["::1/128"], true),
        (LKind::V4Lo, vec!["::/0"], true),
        (LKind::V4Lo, vec!["128.0.0.0/1"], true),
        (LKind::V4Lo, vec!["0.0.0.0/1"], true),
        (LKind::V4Lo, vec!["127.255.255.254/31", "127.0.0.1"], true),
        (LKind::V4Any, vec!["127.0.0.0/8"], true),
        (LKind::V4Any, vec!["192.0.2.2"], true),
        (LKind::V4Any, vec!["192.0.2.0/24", "127.0.0.1"], true),
    ];
    if env.has_v6_lo {
        c.extend(vec![
            (LKind::V6Lo, vec!["::1"], true),
            (LKind::V6Lo, vec!["::1/128"], true),
            (LKind::V6Lo, vec!["::2/127"], true),
            (LKind::V6Lo, vec!["::/127"], true),
            (LKind::V6Lo, vec!["127.0.0.0/8"], true),
            (LKind::V6Lo, vec!["0.0.0.1/32"], true),
            (LKind::Dual, vec!["127.0.0.0/8"], true),
            (LKind::Dual, vec!["127.0.0.1", "::1"], true),
            (LKind::Dual, vec!["::ffff:127.0.0.0/104"], true),
            (LKind::Dual, vec!["::1"], true),
            (LKind::Dual, vec![], false),
        ]);
    }
    c
}

fn parse_entry_text(s: &str) -> Entry {
    let (a, p) = match s.split_once('/') {
        Some((a, p)) => (a, Some(p.parse::<u32>().unwrap())),
        None => (s, None),
    };
    Entry { addr: Addr::from_ip(a.parse().unwrap()), plen: p }
}

pub fn run(cfg: &Cfg, out: &mut Out) {
    THOROUGH.store(cfg.thorough, std::sync::atomic::Ordering::Relaxed);
    let env = probe_env();
    out.count(if env.has_v6_lo { "env:ipv6-loopback" } else { "env:no-ipv6-loopback" });
    out.count(if env.global_v4.is_some() { "env:global-v4" } else { "env:no-global-v4" });
    out.count(if env.global_v6.is_some() { "env:global-v6" } else { "env:no-global-v6" });
    let root = Rng::new(cfg.seed);
    // corpus
    for (i, (kind, es, has_list)) in corpus(&env).into_iter().enumerate() {
        let mut r = root.fork(1_000_000 + i as u64);
        let spec = CaseSpec {
            kind,
            entries: es.iter().map(|s| parse_entry_text(s)).collect(),
            has_list,
            invalid: if i == 0 {
                vec![parse_entry_text("127.0.0.1/33"), parse_entry_text("::1/129"), parse_entry_text("10.0.0.0/40")]
            } else {
                vec![]
            },
            n_peers: 5,
            n_scrapes: 3,
            faults: if i % 4 == 2 { 3 } else { 0 },
            build_order: None,
            big: i == 9,
        };
        run_case(&mut r, &env, spec, &format!("corpus={} seed={}", i, cfg.seed), out);
        if gave_up() {
            break;
        }
    }
    // round-2 corpus: the builder's default address, the unix socket, orders of builder calls, accept errors
    for (i, (order, es, faults)) in [
        (Some(false), vec!["127.0.0.0/8"], 0usize),
        (Some(false), vec![], 0),
        (Some(true), vec!["127.0.0.1", "127.0.3.0/24"], 4),
        (Some(true), vec!["127.0.0.1", "127.0.3.0/24"], 4),
        (Some(true), vec!["127.0.0.1", "127.0.3.0/24"], 4),
        (Some(true), vec!["127.0.0.1", "127.0.3.0/24"], 4),
        (Some(true), vec![], 4),
    ]
    .into_iter()
    .enumerate()
    {
        let mut r = root.fork(3_000_000 + i as u64);
        let spec = CaseSpec {
            kind: LKind::V4Lo,
            has_list: !es.is_empty(),
            entries: es.iter().map(|s| parse_entry_text(s)).collect(),
            invalid: vec![],
            n_peers: 4,
            n_scrapes: 3,
            faults,
            build_order: order,
            big: i == 3,
        };
        run_case(&mut r, &env, spec, &format!("corpus2={} seed={}", i, cfg.seed), out);
        if gave_up() {
            break;
        }
    }
    run_install_cases(cfg, &env, out);
    // generated
    for i in 0..cfg.cases {
        let mut r = root.fork(i as u64);
        let kind = match r.weighted(&[8, 3, if env.has_v6_lo { 1 } else { 0 }, if env.has_v6_lo { 3 } else { 0 }]) {
            0 => LKind::V4Lo,
            1 => LKind::V4Any,
            2 => LKind::V6Lo,
            _ => LKind::Dual,
        };
        let list = gen_allowlist(&mut r, &env, kind, out);
        let mut invalid = vec![];
        if r.chance(1, 6) {
            let mut e = gen_entry_v4(&mut r, &env);
            e.plen = Some(r.range(33, 200) as u32);
            invalid.push(e);
        }
        if r.chance(1, 12) {
            let mut e = gen_entry_v6(&mut r, &env);
            e.plen = Some(r.range(129, 300) as u32);
            invalid.push(e);
        }
        let spec = CaseSpec {
            kind,
            has_list: list.is_some(),
            entries: list.unwrap_or_default(),
            invalid,
            n_peers: r.range(2, 5),
            n_scrapes: r.range(1, 4),
            faults: if r.chance(1, 2) { r.range(2, 5) } else { 0 },
            build_order: if r.chance(2, 3) { Some(true) } else { None },
            big: r.chance(1, 10),
        };
        run_case(&mut r, &env, spec, &format!("seed={} i={}", cfg.seed, i), out);
        if gave_up() {
            out.count("run:stopped-after-unanswered-requests");
            break;
        }
    }
}
