//! Deterministic token-passing scheduler over the `metrics::verif::point` yield points.
//!
//! Managed threads park at every point; the controller waits until every managed thread is parked or
//! finished and then grants exactly one of them, which runs up to its next point. So exactly one
//! shared-memory operation (plus thread-local work) happens per grant, and a schedule (list of thread
//! ids) replays exactly. Points whose id starts with `spin:` are heads of wait loops: a thread parked
//! there becomes runnable again only after another thread has been granted (`spin0:` = loop head: only
//! blocked on coming back to the same point).
#![allow(dead_code)]

use std::cell::RefCell;
use std::sync::{Arc, Condvar, Mutex};
use std::time::{Duration, Instant};

#[derive(Clone, Copy, PartialEq, Debug)]
enum Status {
    Running,
    Parked(&'static str),
    Finished,
}

struct State {
    status: Vec<Status>,
    spin_blocked: Vec<bool>,
    last_point: Vec<&'static str>,
    turn: Option<usize>,
    free_run: bool,
    /// the run was given up through `ABORT_RUN`: parked threads unwind instead of going on
    abort: bool,
}

pub struct Sched {
    st: Mutex<State>,
    cv: Condvar,
}

thread_local! {
    static ME: RefCell<Option<(Arc<Sched>, usize)>> = RefCell::new(None);
}

thread_local! {
    static MUTED: std::cell::Cell<bool> = std::cell::Cell::new(false);
}

/// (additive, C02 round 7) The scheduler identity of the calling thread (None = unmanaged).  A managed thread that
/// spawns an OS thread and then blocks in `join` can hand its identity over with `adopt`: the spawned thread then parks
/// at the yield points in the PARENT's slot (the parent is inside `join`, not at a point), i.e. "a thread that starts
/// during the race" is interleaved like any other step of the parent.
pub fn current() -> Option<(Arc<Sched>, usize)> {
    ME.with(|m| m.borrow().clone())
}
/// see `current`
pub fn adopt(me: Option<(Arc<Sched>, usize)>) {
    ME.with(|m| *m.borrow_mut() = me);
}

/// Runs `f` on the calling (managed) thread without parking at the yield points inside it: the whole of `f`
/// belongs to the grant that is running.  For streams whose step granularity is coarser than the points of a
/// component they call into (e.g. C19's registration races take a histogram `record` as one step).
pub fn muted<R>(f: impl FnOnce() -> R) -> R {
    struct Restore(bool);
    impl Drop for Restore {
        fn drop(&mut self) {
            MUTED.with(|m| m.set(self.0));
        }
    }
    let _g = Restore(MUTED.with(|m| m.replace(true)));
    f()
}

/// Yield points that belong to ONE property's step granularity and sit inside operations other streams treat as a single
/// step (the closure of the gauge's `fetch_update`, hook b22dc8e): threads park there only while the stream that models
/// them has switched them on; for every other stream they are part of the grant that is running.
pub static GAUGE_CAS_POINTS: std::sync::atomic::AtomicBool = std::sync::atomic::AtomicBool::new(false);

/// Set (by a stream's memory-safety oracle, C05: "a value was destroyed while another managed thread is still pinned")
/// to give the current run up WITHOUT letting any managed thread execute another instruction of the code under test:
/// before its next grant the controller ends the run (`timed_out`), and every managed thread unwinds out of the yield
/// point it is parked at (`resume_unwind`, caught by the thread wrapper: the thread is reported in `panicked`), instead
/// of running free as after a deadlock / time-out — a thread that would walk into freed memory must not be resumed.
/// Reset at the start of every run; never set by the scheduler itself.
pub static ABORT_RUN: std::sync::atomic::AtomicBool = std::sync::atomic::AtomicBool::new(false);

fn hook(id: &'static str) {
    if MUTED.with(|m| m.get()) {
        return;
    }
    if id == "atomics.gauge.cas" && !GAUGE_CAS_POINTS.load(std::sync::atomic::Ordering::Relaxed) {
        return;
    }
    let me = ME.with(|m| m.borrow().clone());
    if let Some((s, t)) = me {
        s.park(t, id);
    }
}

impl Sched {
    fn park(&self, t: usize, id: &'static str) {
        let mut st = self.st.lock().unwrap();
        if st.free_run {
            return;
        }
        if st.abort {
            drop(st);
            std::panic::resume_unwind(Box::new("run aborted (sched::ABORT_RUN)"));
        }
        st.status[t] = Status::Parked(id);
        // `spin:`  = parked after a failed wait condition: blocked until another thread moves.
        // `spin0:` = head of a retry loop (condition not yet evaluated): blocked only when the thread comes
        //            back to the same point, i.e. after a failed attempt.
        if id.starts_with("spin:") || (id.starts_with("spin0:") && st.last_point[t] == id) {
            st.spin_blocked[t] = true;
        }
        st.last_point[t] = id;
        self.cv.notify_all();
        while st.turn != Some(t) && !st.free_run && !st.abort {
            st = self.cv.wait(st).unwrap();
        }
        if st.abort {
            st.status[t] = Status::Running;
            drop(st);
            std::panic::resume_unwind(Box::new("run aborted (sched::ABORT_RUN)"));
        }
        if st.turn == Some(t) {
            st.turn = None;
        }
        st.status[t] = Status::Running;
    }
}

#[derive(Debug, Clone)]
pub struct RunResult {
    /// (thread, point id it was parked at when granted); "start" is the initial park
    pub trace: Vec<(usize, &'static str)>,
    /// runnable thread sets at each grant (for enumeration)
    pub choices: Vec<Vec<usize>>,
    pub deadlock: bool,
    pub timed_out: bool,
    pub panicked: Vec<usize>,
}

/// Upper bound on the number of grants of one run (0 = unlimited, the default).  A run that reaches it is given up
/// like one that makes no progress (`timed_out`): for streams in which a defective retry loop could otherwise be
/// granted forever (C04's CAS loops).  Set it before `run`, reset it to 0 afterwards.
pub static GRANT_LIMIT: std::sync::atomic::AtomicUsize = std::sync::atomic::AtomicUsize::new(0);

/// Runs `bodies` as managed threads under `schedule` (ids that are not runnable are skipped; when the
/// schedule is exhausted the lowest runnable id is taken).
pub fn run(bodies: Vec<Box<dyn FnOnce() + Send + 'static>>, schedule: &[usize]) -> RunResult {
    run_deadline(bodies, schedule, 20)
}

/// `run` with the time after which a run that makes no scheduling progress is given up (`timed_out`): a managed thread
/// that blocks OUTSIDE a yield point (e.g. on a lock another parked thread holds) never parks, and the controller waits.
pub fn run_deadline(bodies: Vec<Box<dyn FnOnce() + Send + 'static>>, schedule: &[usize], deadline_s: u64) -> RunResult {
    let n = bodies.len();
    let s = Arc::new(Sched {
        st: Mutex::new(State { status: vec![Status::Running; n], spin_blocked: vec![false; n], last_point: vec![""; n], turn: None, free_run: false, abort: false }),
        cv: Condvar::new(),
    });
    ABORT_RUN.store(false, std::sync::atomic::Ordering::SeqCst);
    metrics::verif::set_hook(Some(hook));
    let mut handles = vec![];
    for (t, body) in bodies.into_iter().enumerate() {
        let s2 = s.clone();
        handles.push(std::thread::spawn(move || {
            ME.with(|m| *m.borrow_mut() = Some((s2.clone(), t)));
            s2.park(t, "start");
            let r = std::panic::catch_unwind(std::panic::AssertUnwindSafe(body));
            ME.with(|m| *m.borrow_mut() = None);
            let mut st = s2.st.lock().unwrap();
            st.status[t] = Status::Finished;
            s2.cv.notify_all();
            r.is_ok()
        }));
    }
    let mut res = RunResult { trace: vec![], choices: vec![], deadlock: false, timed_out: false, panicked: vec![] };
    let mut pos = 0;
    let deadline = Instant::now() + Duration::from_secs(deadline_s);
    loop {
        let mut st = s.st.lock().unwrap();
        // wait until nobody is running
        while st.status.iter().any(|x| *x == Status::Running) || st.turn.is_some() {
            let (g, to) = s.cv.wait_timeout(st, Duration::from_millis(200)).unwrap();
            st = g;
            if to.timed_out() && Instant::now() > deadline {
                res.timed_out = true;
                st.free_run = true;
                s.cv.notify_all();
                break;
            }
        }
        if res.timed_out {
            break;
        }
        if st.status.iter().all(|x| *x == Status::Finished) {
            break;
        }
        if ABORT_RUN.load(std::sync::atomic::Ordering::SeqCst) {
            res.timed_out = true;
            st.abort = true;
            s.cv.notify_all();
            break;
        }
        let limit = GRANT_LIMIT.load(std::sync::atomic::Ordering::Relaxed);
        if limit != 0 && res.trace.len() >= limit {
            res.timed_out = true;
            st.free_run = true;
            s.cv.notify_all();
            break;
        }
        let runnable: Vec<usize> = (0..n)
            .filter(|t| matches!(st.status[*t], Status::Parked(_)) && !st.spin_blocked[*t])
            .collect();
        if runnable.is_empty() {
            res.deadlock = true;
            st.free_run = true;
            s.cv.notify_all();
            break;
        }
        // next scheduled runnable id
        let mut pick = None;
        while pos < schedule.len() {
            let c = schedule[pos];
            pos += 1;
            if runnable.contains(&c) {
                pick = Some(c);
                break;
            }
        }
        let t = pick.unwrap_or(runnable[0]);
        if let Status::Parked(id) = st.status[t] {
            res.trace.push((t, id));
        }
        res.choices.push(runnable);
        for u in 0..n {
            if u != t {
                st.spin_blocked[u] = false;
            }
        }
        st.turn = Some(t);
        st.status[t] = Status::Running;
        s.cv.notify_all();
    }
    if res.deadlock || res.timed_out {
        // do not join threads that may spin forever; give them a moment
        let t0 = Instant::now();
        for (t, h) in handles.into_iter().enumerate() {
            while !h.is_finished() && t0.elapsed() < Duration::from_millis(500) {
                std::thread::sleep(Duration::from_millis(5));
            }
            if h.is_finished() {
                if let Ok(false) | Err(_) = h.join() {
                    res.panicked.push(t);
                }
            }
        }
    } else {
        for (t, h) in handles.into_iter().enumerate() {
            if let Ok(false) | Err(_) = h.join() {
                res.panicked.push(t);
            }
        }
    }
    metrics::verif::set_hook(None);
    res
}

/// Depth-first enumeration of all schedules by replay. `mk` builds fresh bodies for every run; `visit`
/// sees the result of every complete run; stops after `limit` runs. Returns (runs, exhausted).
pub fn enumerate<M, V>(mut mk: M, mut visit: V, limit: usize) -> (usize, bool)
where
    M: FnMut() -> Vec<Box<dyn FnOnce() + Send + 'static>>,
    V: FnMut(&[usize], &RunResult),
{
    let mut prefix: Vec<usize> = vec![];
    let mut runs = 0;
    loop {
        let r = run(mk(), &prefix);
        runs += 1;
        let taken: Vec<usize> = r.trace.iter().map(|(t, _)| *t).collect();
        visit(&taken, &r);
        if runs >= limit {
            return (runs, false);
        }
        // backtrack: last position with an untried alternative (next larger runnable id)
        let mut i = taken.len();
        let mut next = None;
        while i > 0 {
            i -= 1;
            if let Some(alt) = r.choices[i].iter().copied().filter(|c| *c > taken[i]).min() {
                next = Some((i, alt));
                break;
            }
        }
        match next {
            None => return (runs, true),
            Some((i, alt)) => {
                prefix = taken[..i].to_vec();
                prefix.push(alt);
            }
        }
    }
}

/// schedule token: thread ids joined by `.`; `-` when empty
pub fn sched_tok(s: &[usize]) -> String {
    if s.is_empty() {
        "-".into()
    } else {
        s.iter().map(|t| t.to_string()).collect::<Vec<_>>().join(".")
    }
}
