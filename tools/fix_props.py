#!/usr/bin/env python3
"""tools/fix_props.py: idempotent normalisation of props.json after a merge — every property carries its cfg-inventory obligation
(module MetricsVerif.Props.SrcCfg.<id>, theorem MetricsVerif.SrcCfg.cfg_<id>)."""
import json
p = json.load(open('/verif/props.json'))
for pid in p:
    mods = [m for m in p[pid]['lean_modules'] if m != "MetricsVerif.Props.SrcCfg"]
    m = f"MetricsVerif.Props.SrcCfg.{pid}"
    if m not in mods:
        mods.append(m)
    p[pid]['lean_modules'] = mods
    t = f"MetricsVerif.SrcCfg.cfg_{pid}"
    if t not in p[pid]['theorems']:
        p[pid]['theorems'].append(t)
    tb = "tools/extract_cfg.py (conditional-compilation inventory of the anchored files, pinned by SrcCfg.cfg_" + pid + ")"
    if tb not in p[pid].get('trusted_base', []):
        p[pid].setdefault('trusted_base', []).append(tb)
json.dump(p, open('/verif/props.json', 'w'), indent=1, ensure_ascii=False)
print("props normalised")
