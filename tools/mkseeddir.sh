#!/bin/sh
# tools/mkseeddir.sh <Cxx> <base> <k1> <k2>: scratch area for a seeding sub-agent: <base>/<Cxx>/{property.json, repo (worktree), m<k1>, m<k2>, PROMPT.txt}
# The agent gets ONLY the property text and its own worktree — nothing from /verif.
set -e
P="$1"; B="$2"; K1="$3"; K2="$4"; D="$B/$P"
rm -rf "$D"; git -C /repo worktree prune; mkdir -p "$D/m$K1" "$D/m$K2"
git -C /repo worktree add --detach "$D/repo" HEAD >/dev/null 2>&1
cp /repo/Cargo.lock "$D/repo/Cargo.lock"; git -C "$D/repo" update-index --assume-unchanged Cargo.lock
grep "\"id\": *\"$P\"" /verif/properties.jsonl > "$D/property.json"
python3 - "$P" "$B" "$K1" "$K2" <<'PY'
import glob, json, sys
P, B, K1, K2 = sys.argv[1:5]
avoid = []
for d in sorted(glob.glob(f"/verif/seeded/{P}-*/")):
    m = json.load(open(d + "meta.json"))
    avoid.append("(" + str(len(avoid) + 1) + ") " + m.get("summary", "")[:420].replace("\n", " "))
s = open("/verif/tools/SEED_PROMPT.txt").read()
s = s.replace("/tmp/s2", B).replace("@P@", P).replace("@AVOID@", " ".join(avoid) or "(none)")
s = s.replace("m3", "m" + K1).replace("m4", "m" + K2).replace("{3,4}", "{" + K1 + "," + K2 + "}")
open(f"{B}/{P}/PROMPT.txt", "w").write(s)
PY
echo "$D ready"
