#!/usr/bin/env python3-vt
# validates MANIFEST.json and every evidence file against the schemas in /root/.vp
import json, jsonschema, glob, sys
ok = True
try:
    jsonschema.validate(json.load(open('/verif/MANIFEST.json')), json.load(open('/root/.vp/MANIFEST.schema.json')))
except Exception as e:
    ok = False; print('MANIFEST', str(e)[:400])
es = json.load(open('/root/.vp/EVIDENCE.schema.json'))
for f in sorted(glob.glob('/verif/evidence/C*.json')):
    try:
        jsonschema.validate(json.load(open(f)), es)
    except Exception as e:
        ok = False; print(f, str(e)[:400])
print('valid' if ok else 'INVALID'); sys.exit(0 if ok else 1)
