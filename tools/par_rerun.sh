#!/bin/sh
# tools/par_rerun.sh <n> <seed-id>... : re-run the given seeded changes against the CURRENT checks in <n> parallel
# scratch copies (/tmp/r/<i>: copy of /verif + worktree of /repo), then merge the per-copy STATUS.json files into
# /verif/seeded/STATUS.json. Nothing in /repo's working tree or /verif (except seeded/STATUS.json) is touched.
set -e
N="$1"; shift
mkdir -p /tmp/r
i=0
while [ $i -lt $N ]; do
  D=/tmp/r/$i
  if [ ! -d $D/verif ]; then
    git -C /repo worktree prune
    /verif/tools/mkscratch.sh $D >/dev/null
    rsync -a /verif/lean/.lake $D/verif/lean/
    mkdir -p $D/verif/.cache/run $D/verif/evidence/replays
    cp $D/repo/Cargo.lock $D/verif/harness/Cargo.lock
  else
    rsync -a --exclude .cache --exclude .git --exclude 'lean/.lake' --exclude 'harness/target' --exclude harness/Cargo.toml --exclude harness/.cargo --exclude setup.sh --exclude check --exclude seeded/STATUS.json /verif/ $D/verif/
    sed "s#^REPO = \"/repo\"#REPO = \"$D/repo\"#" /verif/check > $D/verif/check
  sed "s#/repo/#$D/repo/#g" /verif/harness/Cargo.toml > $D/verif/harness/Cargo.toml
  # the scratch worktree follows /repo's HEAD (hook and fix commits made since the copy was taken)
  git -C $D/repo checkout -q -- . ; git -C $D/repo clean -fdq; git -C $D/repo checkout -q --detach $(git -C /repo rev-parse HEAD)
  cp $D/repo/Cargo.lock $D/verif/harness/Cargo.lock
  fi
  rm -f $D/verif/seeded/STATUS.json
  i=$((i+1))
done
# round-robin distribution
i=0
for s in "$@"; do eval "L$i=\"\$L$i $s\""; i=$(( (i+1) % N )); done
i=0
while [ $i -lt $N ]; do
  D=/tmp/r/$i
  eval "IDS=\$L$i"
  if [ -n "$IDS" ]; then
    (cd $D/verif && VERIF_ROOT=$D/verif REPO_ROOT=$D/repo python3 tools/rerun_seeds.py $IDS > $D/rerun.log 2>&1) &
  fi
  i=$((i+1))
done
wait
python3 - $N <<'PY'
import json, sys, os
n = int(sys.argv[1]); sp = '/verif/seeded/STATUS.json'
st = json.load(open(sp)) if os.path.exists(sp) else {}
for i in range(n):
    p = f'/tmp/r/{i}/verif/seeded/STATUS.json'
    if os.path.exists(p):
        st.update(json.load(open(p)))
json.dump(st, open(sp, 'w'), indent=1, ensure_ascii=False, sort_keys=True)
print('merged', len(st))
PY
cat /tmp/r/*/rerun.log
