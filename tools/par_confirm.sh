#!/bin/sh
# tools/par_confirm.sh <seed-base> <copies "1 2 3"> <P:K>... : confirm seeded changes (tools/confirm_seed.py) in parallel,
# each against a scratch copy /tmp/r/<i> of the framework + worktree (made by tools/par_rerun.sh), never touching /repo.
BASE="$1"; COPIES="$2"; shift 2
for i in $COPIES; do
  D=/tmp/r/$i
  rsync -a --exclude .cache --exclude .git --exclude 'lean/.lake' --exclude 'harness/target' --exclude harness/Cargo.toml --exclude harness/.cargo --exclude setup.sh --exclude check --exclude seeded/STATUS.json /verif/ $D/verif/
  sed "s#^REPO = \"/repo\"#REPO = \"$D/repo\"#" /verif/check > $D/verif/check
  sed "s#/repo/#$D/repo/#g" /verif/harness/Cargo.toml > $D/verif/harness/Cargo.toml
  # the scratch worktree follows /repo's HEAD (hook and fix commits made since the copy was taken)
  git -C $D/repo checkout -q -- . ; git -C $D/repo clean -fdq; git -C $D/repo checkout -q --detach $(git -C /repo rev-parse HEAD)
  cp $D/repo/Cargo.lock $D/verif/harness/Cargo.lock
  : > $D/confirm.list
done
set -- "$@"
# both seeds of one property share ONE seed worktree (<base>/<P>/repo): they must run one after the other in one copy
n=$(echo $COPIES | wc -w); j=0; LASTP=""
for pk in "$@"; do
  P=${pk%%:*}
  if [ "$P" != "$LASTP" ]; then j=$((j+1)); LASTP=$P; fi
  idx=$(( j % n + 1 )); i=$(echo $COPIES | cut -d' ' -f$idx)
  echo "$pk" >> /tmp/r/$i/confirm.list
done
for i in $COPIES; do
  D=/tmp/r/$i
  ( while read pk; do P=${pk%%:*}; K=${pk##*:}
      SEED_BASE=$BASE VERIF_ROOT=$D/verif REPO_ROOT=$D/repo python3 /verif/tools/confirm_seed.py $P $K 2>&1 | grep -v WARNING | tail -1
    done < $D/confirm.list ) > $D/confirm.log 2>&1 &
done
wait
cat /tmp/r/*/confirm.log
