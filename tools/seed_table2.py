#!/usr/bin/env python3
"""tools/seed_table2.py: writes seeded/TABLE.md — every kept seeded change with what it needs and what the CURRENT checks say
(seeded/STATUS.json, written by tools/rerun_seeds.py / par_rerun.sh; falls back to the verdict recorded when the seed was filed)."""
import glob, json, os
ST = json.load(open('/verif/seeded/STATUS.json')) if os.path.exists('/verif/seeded/STATUS.json') else {}
rows, n, caught, inp, missed = [], 0, 0, 0, []
def clip(s, k):
    s = ' '.join(str(s).split()).replace('|', '/')
    return s if len(s) <= k else s[:k] + '…'
for d in sorted(glob.glob('/verif/seeded/C*/')):
    sid = os.path.basename(d[:-1])
    m = json.load(open(d + 'meta.json'))
    c = m.get('confirmation', {})
    st = ST.get(sid)
    if st:
        ok, wi, tier, what, at = st['caught'], st['with_failing_input'], st.get('tier', ''), st.get('what', ''), st.get('verif_commit', '')
    else:
        ok, wi, tier, what, at = c.get('caught'), c.get('caught_with_failing_input'), 'thorough' if 'check_thorough' in c and c.get('caught') else 'quick', '', 'when filed'
    n += 1
    caught += 1 if ok else 0
    inp += 1 if wi else 0
    if not ok:
        missed.append(sid)
    verdict = ('caught (' + tier + '), failing input: ' + clip(what, 110)) if wi else ('caught (' + tier + '), no-failing-input-found: ' + clip(what, 110) if ok else 'MISSED')
    rows.append(f"| {sid} | {clip(m.get('summary', ''), 260)} | {clip(m.get('needs', m.get('what_it_needs_to_manifest', '')), 170)} | {verdict} | {at} |")
out = ["# Seeded changes and what the current checks say\n",
       f"{n} changes kept; caught {caught}, of those with a failing input {inp}; missed: {', '.join(missed) or 'none'}.\n",
       "Each change was produced by a fresh sub-agent that saw only the property text and its own worktree, confirmed by `tools/confirm_seed.py` (existing tests pass with it, its demonstration fails with it and passes without it), and is re-run against the checks by `tools/par_rerun.sh` (apply → `./check` → undo, in scratch copies).\n",
       "| seed | change | needs | current verdict | at /verif commit |", "|---|---|---|---|---|"] + rows
open('/verif/seeded/TABLE.md', 'w').write('\n'.join(out) + '\n')
print(out[1])
