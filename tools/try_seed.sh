#!/bin/sh
# tools/try_seed.sh <property> <patch.diff> [tier]: apply a seeded change to /repo, run the check, undo.
set -u
P="$1"; PATCH="$2"; TIER="${3:-quick}"
cd /repo || exit 2
if [ -n "$(git status --porcelain)" ]; then echo "repo not clean"; exit 2; fi
git apply "$PATCH" || { echo "patch does not apply"; exit 2; }
cd /verif
# the evidence file describes the unchanged tree: keep it aside while the patched tree is checked
cp "evidence/$P.json" "/verif/.cache/evidence-$P.keep" 2>/dev/null
./check "$P" --tier "$TIER" > /tmp/try_seed.out 2>/tmp/try_seed.err; RC=$?
git -C /repo checkout -- . ; git -C /repo clean -fdq
cp "evidence/$P.json" "seeded/.last-evidence-$P.json" 2>/dev/null; mv "/verif/.cache/evidence-$P.keep" "evidence/$P.json" 2>/dev/null
(cd lean && python3 ../tools/extract.py >/dev/null 2>&1)
grep -E "^VIOLATION|^KNOWN" /tmp/try_seed.out | cut -c1-200
tail -3 /tmp/try_seed.err | cut -c1-400
echo "rc=$RC"
