#!/bin/sh
# tools/try_seed.sh <property> <patch.diff> [tier]: apply a seeded change to /repo, run the check, undo.
set -u
P="$1"; PATCH="$2"; TIER="${3:-quick}"
cd /repo || exit 2
if [ -n "$(git status --porcelain)" ]; then echo "repo not clean"; exit 2; fi
git apply "$PATCH" || { echo "patch does not apply"; exit 2; }
cd /verif
./check "$P" --tier "$TIER" > /tmp/try_seed.out 2>/tmp/try_seed.err; RC=$?
git -C /repo checkout -- . ; git -C /repo clean -fdq
grep -E "^VIOLATION|^KNOWN" /tmp/try_seed.out | cut -c1-200
tail -3 /tmp/try_seed.err | cut -c1-400
echo "rc=$RC"
