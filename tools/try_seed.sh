#!/bin/sh
# tools/try_seed.sh <property> <patch.diff> [tier]: apply a seeded change to the repository, run the check, undo.
# REPO_ROOT / VERIF_ROOT select a scratch copy made by tools/mkscratch.sh (default: /repo and /verif).
set -u
P="$1"; PATCH="$2"; TIER="${3:-quick}"
R="${REPO_ROOT:-/repo}"; V="${VERIF_ROOT:-/verif}"
cd "$R" || exit 2
if [ -n "$(git status --porcelain)" ]; then echo "repo not clean"; exit 2; fi
git apply "$PATCH" || { echo "patch does not apply"; exit 2; }
cd "$V"
# the evidence file describes the unchanged tree: keep it aside while the patched tree is checked
mkdir -p "$V/.cache"
cp "evidence/$P.json" "$V/.cache/evidence-$P.keep" 2>/dev/null
OUT="$V/.cache/try_seed.$P.out"; ERR="$V/.cache/try_seed.$P.err"
./check "$P" --tier "$TIER" > "$OUT" 2> "$ERR"; RC=$?
git -C "$R" checkout -- . ; git -C "$R" clean -fdq
cp "evidence/$P.json" "seeded/.last-evidence-$P.json" 2>/dev/null; mv "$V/.cache/evidence-$P.keep" "evidence/$P.json" 2>/dev/null
(python3 tools/extract.py --repo "$R" >/dev/null 2>&1; python3 tools/extract_cfg.py --repo "$R" >/dev/null 2>&1)
grep -E "^VIOLATION|^KNOWN" "$OUT" | cut -c1-200
tail -3 "$ERR" | cut -c1-400
echo "rc=$RC"
