// Miri driver for C14: compiles the repository's cow.rs itself (it depends on std only) and drives it.
#![allow(dead_code)]
#[path = "/repo/metrics/src/cow.rs"]
mod cow;
use cow::Cow;
type SharedString = Cow<'static, str>;
use std::sync::Arc;
#[derive(Clone, Debug, PartialEq)]
struct D(u8, Option<String>);
static ST: [D; 1] = [D(9, None)];
fn main() {
    // str: all three kinds, all shapes, clone / into_owned / drop, cross-thread drop
    let a: Arc<str> = Arc::from("shared");
    let mut vals: Vec<SharedString> = vec![
        SharedString::const_str("static"), SharedString::from_borrowed(""), SharedString::from_owned(String::new()),
        SharedString::from_owned(String::with_capacity(16)), SharedString::from_owned("abc".to_string()),
        SharedString::from(std::borrow::Cow::Owned({ let mut s = String::with_capacity(9); s.push('x'); s })),
        SharedString::from_shared(a.clone()), SharedString::from(a.clone()),
    ];
    let clones: Vec<SharedString> = vals.iter().cloned().collect();
    for (x, y) in vals.iter().zip(clones.iter()) { assert_eq!(x, y); assert_eq!(&**x, &**y); }
    let owned: Vec<String> = clones.into_iter().map(|c| c.into_owned()).collect();
    for (x, y) in vals.iter().zip(owned.iter()) { assert_eq!(&**x, y.as_str()); }
    let moved = vals.split_off(3);
    std::thread::spawn(move || drop(moved)).join().unwrap();
    drop(vals);
    assert_eq!(Arc::strong_count(&a), 1);
    // slices of an element type with a destructor, incl. shared
    let arc: Arc<[D]> = Arc::from(vec![D(1, Some("one".to_string())), D(2, Some("two".to_string()))]);
    let st: &'static [D] = &ST;
    let mut cs: Vec<Cow<'static, [D]>> = vec![
        Cow::from_borrowed(st), Cow::const_slice(st), Cow::from_owned(Vec::new()), Cow::from_owned(Vec::with_capacity(5)),
        Cow::from_owned({ let mut v = Vec::with_capacity(7); v.push(D(3, Some("three".to_string()))); v }),
        Cow::from_shared(arc.clone()), Cow::from(arc.clone()),
    ];
    let cl: Vec<Cow<'static, [D]>> = cs.iter().cloned().collect();
    for (x, y) in cs.iter().zip(cl.iter()) { assert_eq!(&**x, &**y); }
    let ow: Vec<Vec<D>> = cl.into_iter().map(|c| c.into_owned()).collect();
    // the with_extra_labels pattern: clone -> into_owned -> extend -> from_owned
    let mut ext = cs[4].clone().into_owned();
    ext.extend(vec![D(4, Some("four".to_string()))]);
    let ext: Cow<'static, [D]> = ext.into();
    assert_eq!(ext.len(), 2);
    let ext2 = ext.clone();
    drop(ext);
    assert_eq!(ext2[1], D(4, Some("four".to_string())));
    for (x, y) in cs.iter().zip(ow.iter()) { assert_eq!(&**x, y.as_slice()); }
    let mv = cs.split_off(2);
    std::thread::spawn(move || drop(mv)).join().unwrap();
    drop(cs); drop(ow);
    assert_eq!(Arc::strong_count(&arc), 1);
    println!("c14 miri driver: ok");
}
