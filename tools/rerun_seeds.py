#!/usr/bin/env python3
"""
tools/rerun_seeds.py [seed-id ...]
Re-runs the property check against every kept seeded change (seeded/<id>/patch.diff): apply to /repo → ./check
(quick; thorough when quick is silent) → undo. Writes seeded/STATUS.json (what the CURRENT checks say; the
`confirmation` block inside each meta.json is what was seen when the seed was first filed).
"""
import glob, json, os, re, subprocess, sys, time

ROOT = os.environ.get("VERIF_ROOT", "/verif")
ids = sys.argv[1:] or sorted(os.path.basename(d[:-1]) for d in glob.glob("/verif/seeded/*/"))
sp = ROOT + "/seeded/STATUS.json"
status = json.load(open(sp)) if os.path.exists(sp) else {}
head = subprocess.run("git -C /verif rev-parse --short HEAD", shell=True, stdout=subprocess.PIPE).stdout.decode().strip()


def sh(cmd, timeout):
    p = subprocess.run(cmd, shell=True, cwd=ROOT, stdout=subprocess.PIPE, stderr=subprocess.STDOUT, timeout=timeout)
    return p.stdout.decode("utf-8", "replace")


for s in ids:
    prop = s.split("-")[0]
    patch = f"/verif/seeded/{s}/patch.diff"
    t = time.time()
    out = sh(f"tools/try_seed.sh {prop} {patch} quick", 6000)
    tier = "quick"
    if "VIOLATION" not in out and "rc=2" not in out:
        out2 = sh(f"tools/try_seed.sh {prop} {patch} thorough", 20000)
        if "VIOLATION" in out2:
            out, tier = out2, "thorough"
    caught = "VIOLATION" in out
    applies = "patch does not apply" not in out and "repo not clean" not in out
    line = next((l for l in out.splitlines() if l.startswith("VIOLATION")), "")
    what = ""
    m = re.search(r"replay=(\S+)", line)
    if m and os.path.exists(m.group(1)):
        try:
            rp = json.load(open(m.group(1)))
            what = (rp.get("what") or "; ".join(rp.get("broken_obligations", [])))[:300]
        except Exception:
            pass
    status[s] = {"caught": caught, "with_failing_input": caught and "no-failing-input-found" not in line,
                 "tier": tier if caught else "quick+thorough", "violation": line[:200], "what": what,
                 "applies": applies, "verif_commit": head, "wall_s": round(time.time() - t), "tail": "" if caught else out[-400:]}
    json.dump(status, open(sp, "w"), indent=1, ensure_ascii=False)
    print(s, "caught" if caught else ("MISSED" if applies else "PATCH-DOES-NOT-APPLY"), tier, status[s]["with_failing_input"], what[:100], flush=True)
