#!/bin/sh
# tools/mkbuilder.sh <Cxx>: scratch copy of the framework + private worktree for an extender agent under /tmp/b/<Cxx>
set -e
P="$1"; D="/tmp/b/$P"
rm -rf "$D"; git -C /repo worktree prune; mkdir -p /tmp/b
/verif/tools/mkscratch.sh "$D" >/dev/null
rsync -a /verif/lean/.lake "$D/verif/lean/"
mkdir -p "$D/seeds" "$D/verif/.cache/run" "$D/verif/evidence/replays"
cp "$D/repo/Cargo.lock" "$D/verif/harness/Cargo.lock"
echo "$D ready"
