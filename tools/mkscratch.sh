#!/bin/sh
# tools/mkscratch.sh <dir>: a self-contained scratch copy of the framework + a git worktree of /repo, for
# experiments that must not touch /verif or /repo (e.g. trying seeded changes, building a new property).
#   <dir>/verif  copy of /verif (no caches), paths rewritten to <dir>
#   <dir>/repo   git worktree of /repo's HEAD
set -e
D="$1"; [ -n "$D" ] || { echo "usage: $0 <dir>"; exit 2; }
mkdir -p "$D"
git -C /repo worktree add --detach "$D/repo" HEAD >/dev/null
rsync -a --exclude .cache --exclude .git --exclude 'lean/.lake' --exclude 'harness/target' /verif/ "$D/verif/"
sed -i "s#/repo/#$D/repo/#g" "$D/verif/harness/Cargo.toml"
sed -i "s#/verif/.cache/target#$D/verif/.cache/target#" "$D/verif/harness/.cargo/config.toml" "$D/verif/setup.sh"
sed -i "s#^REPO = \"/repo\"#REPO = \"$D/repo\"#" "$D/verif/check"
sed -i "s#cp /repo/Cargo.lock#cp $D/repo/Cargo.lock#" "$D/verif/setup.sh"
echo "scratch ready: $D  (remove with: git -C /repo worktree remove --force $D/repo; rm -rf $D)"
