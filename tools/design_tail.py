#!/usr/bin/env python3
"""Regenerates DESIGN.md §8–§11 (everything from the '## 8.' heading on) from props.json, known_findings.json,
seeded/*/meta.json and the notes below. Run after the seeded table changes."""
import json, os, subprocess
R = '/verif'
P = json.load(open(f'{R}/props.json'))
K = json.load(open(f'{R}/known_findings.json'))

NOTES = {
 'C01': ("Model/LocalRec (guards restore the SAVED previous recorder; closure frames; macro-form table)",
         "dispatch to the innermost live installation, scope restore, no use after scope — for every LIFO/no-forget history incl. every closures-only program with panics (`closures_only_disciplined`); thread isolation and delivered fields for ALL programs",
         "29 macro forms × random guard/closure trees on fresh OS threads; doubles are leaked so a stale dispatch is observed safely",
         "K-C01-fifo, K-C01-forget (guard API is not order-/leak-safe; witnesses `fifo_drop_leaves_stale`, `forget_leaves_stale`, also through a closure)"),
 'C02': ("Model/OnceCell step machine + release/acquire bit", "at most one Ok, loser gets its own recorder back, no racy/torn read under the source's orderings, one recorder for everyone, stable once initialised — every schedule, any #threads",
         "scheduler over 5 yield points, exhaustive schedules of 3 configurations (thorough); translator pins orderings and call order (`src_orderings_ok`, `src_call_shape`)", "holds"),
 'C03': ("Model/Key (canonical forms per label-count arm, hasher call stream, get_hash memo machine)", "== is an equivalence, cmp a total preorder with == as its Equal class, == ⇒ same hasher calls and get_hash, permutation invariance for distinct names (any length), get_hash stable in every interleaving",
         "18–27 construction paths per content, all pairs/triples, 0–45 labels (long lists added after seed C03-2), racing and scheduled first get_hash calls", "fix 58cfdd7 (two-label arm of Ord)"),
 'C04': ("Model/Atomics (cell step machine, split load/store variant, handle layer, IntoF64 table)", "linearization/exactly-once, counter sum mod 2^64, absolute monotone, gauge fold, record_many = n records, no-op handles, totality; `split_loses_update` shows atomicity is needed",
         "sequential bit-exact traces + real-thread commuting runs; translator pins one RMW per update (`src_rmw_shape`) and the IntoF64 table", "holds"),
 'C05': ("Model/Bucket step machine (claim/publish cells, blocks, tail, next; any block size)", "`pushers_conserved`: any number of concurrent pushers, any schedule, any B: at quiescence a snapshot is a permutation of the pushed values; in-flight accounting; claimed+todo constant; readers see published prefixes only",
         "scheduler over 17 yield points with B=64 (prefill to reach hand-over), deep hand-over grid (added after seed C05-2), exhaustive schedules of 5 configurations; conservation / completeness / is_empty oracles with trace signatures",
         "fixes b89d888 (link before publishing the new tail — former K2) and 1bfd98d (is_empty on claimed slots — former K3); K-C05-K1 stays (straggler push on a detached block; `k1_straggler_lost`). NOT proved: a universal theorem for interleavings with clearers (the full statement is false; the part outside K1 is covered by correspondence + oracles only)"),
 'C06': ("Model/Registry (shards, hash&mask, read section / write section with re-check; abstract keys with laws as hypotheses)", "sequential refinement to a map per (kind, key-class) for any shard count and any coherent hash; concurrent: every run equals the sequential run of the logged calls (`concurrent_is_sequential`), racing creators agree",
         "counting storage + Registry::atomic + a degenerate-hash key type (real collisions); scheduler over the lock sections; same-name label pairs (added after seed C06-2)", "holds"),
 'C07': ("Model/Prom (recorder state machine: descriptions, counters, gauges, pending samples, distributions; exact dyadic values)", "`hist_conserved` (distribution + pending = recorded, count and sum, any interleaving of record/upkeep/render), `render_reports_hist`, render idempotent, counter/gauge/description refinement per key, label merge",
         "sessions against a real PrometheusRecorder, every render compared through a canonical exposition view + independent tally", "sequentially holds; concurrent record vs drain inherits K-C05-K1"),
 'C08': ("Model/PromFmt + Model/Exposition (independent grammar-level reader) + Model/PromRender", "name/label grammar for every non-empty string, escape well-formedness, `sample_roundtrip`/`help_roundtrip`/`type_roundtrip` through the independent reader, `text_splits_back` (no line injection), `family_shape`",
         "hostile strings through every public formatting function byte-for-byte + whole recorder sessions with hostile strings, 17 units, suffix on/off", "fix c145b4b (unit suffix is part of the family name)"),
 'C09': ("Model/Statsd (PayloadWriter over bytes, chunking by shadow length, drains) + independent datagram reader", "`no_panic`, `bounded`, `framed`/`le32_exact`, `history_exact`/`drain_exact` (any history of writes and drains incl. rejected writes), accounting, `payload_parses_*` under an explicit delimiter-freeness hypothesis",
         "long-lived real writer through the cfg driver, limits 0..hundreds, 0–3000 values, both framings, flush cycles; State::flush stream", "fixes 7ca3631, 98929fc, ff53daa (prefix in minimum length; placeholder after rejected write; placeholder after drain)"),
 'C10': ("Model/StatsdAgg (counter/flush step machine with the send decision; gauges as a linearization)", "increment-only, ONE flusher, any #threads, any schedule: each delta = increments between two flush loads (`deltas_are_increments_between_loads`), deltas telescope, no non-zero delta skipped, zero sent once (`zero_once`); gauge flush = latest set; absolute-only sequential telescoping; `timestamp_iff_documented` over extracted facts",
         "scheduler over 12 yield points + exhaustive schedules; sequential multi-key histories with all switches; UDP end-to-end", "fixes 3ce0e07 (timestamp mode inverted), fce8bb3 (idleness on the delta); K-C10-abs-race (`first_absolute_races_flush`)"),
 'C11': ("see §8 note (built last)", "", "", ""),
 'C12': ("Model/Recency (generations, per-kind entries, observation loop)", "`dropped_iff` (strict timeout), kept if updated / within timeout, never dropped outside mask or without timeout, fresh after drop, `kinds_independent`, noninterference — all histories",
         "Recency+Registry under quanta mock clock, exporter through the build_with_clock hook, exhaustive 6^6 small scope (thorough)", "fix 0c2b681 (entries per kind)"),
 'C13': ("Model/Layers (recorder tree, handle tree, router tries)", "prefix exact, filter ⇔ substring (ASCII folding), router longest prefix with last-duplicate-wins, fanout all-once (any width/depth, record_many as n), stack = composition",
         "real Stacks/layers over logging doubles, brute-force oracles independent of aho-corasick/radix_trie", "holds"),
 'C14': ("Model/Cow (heap of Vec/Arc/static cells, capacity-word kind decoding)", "`cow_safe` (no memory error state reachable by ANY op sequence), content preservation, no leak / freed once / Arc counts restored, cap-0 and empty-with-capacity cases",
         "real SharedString / label slices / Key paths + tracking global allocator (double free, foreign free, bad layout, leak)", "holds; dead `From<Cow> for std::borrow::Cow` impl noted"),
 'C15': ("Model/Histogram, Model/Rolling, Model/DistBuilder", "bucket counts = #{x ≤ b}, monotone, +Inf = count, `batch_equiv` for every batching under ascending bounds (necessity witness), precedence Full>Prefix>Suffix>global with sanitised matching, `window_sound` both halves, count covers all, quantile ends within the window (repaired code)",
         "real Histogram, real RollingSummary under mock clock (sketch decoded rank by rank), real builder override sets", "fix a3e487e (empty summaries skipped in merge)"),
 'C16': ("Model/Reservoir (push as a function of the scripted choice; drain; swap)", "drain soundness, all-when-≤-cap, exact rate, next drain empty, no panic for any capacity, and `uniform`: exact counting over all choice vectors for every cap/n/position",
         "scripted RNG hook + exact enumeration on the real code + frequency search", "fix b35f32f (fastrand(idx+1)); K-C16-straddle (push overlapping consume)"),
 'C17': ("Model/Tracing (span store, insertion-ordered maps, stacks, filters)", "`span_fields_spec` (own latest > parent-at-creation > …), `emit_label_set`/`emit_exact`, no duplicate names, unchanged without span/fields, independence from other threads",
         "real registry + MetricsLayer + TracingContextLayer, 12 span shapes, 3 parent forms, 13 value kinds, 1–3 threads", "holds"),
 'C18': ("Model/Allowlist (bit-prefix networks, request decision in code order)", "`contains_iff_prefix` (interval = top bits for every prefix length), host entries, union/monotonicity, `deny_outside`, `allow_inside`, outsider /health is 403, body = render",
         "real listener per case, peers bound to chosen 127.x.y.z / ::1 addresses, fault bursts, liveness after faults; translator pins parser order and decision shape", "fixes ab210d0 (plain addresses), e1a0c4b (IPv4-mapped peers of a dual-stack listener)"),
 'C19': ("Model/Debugging (seen order, metadata fold, blocks of 64)", "snapshot lists exactly the registered keys in first-registration order, values = fold of own ops, `hist_conserved` across snapshots, unit/description rule, recorder isolation",
         "1–3 real recorders on 3 threads, 8 key constructors, bursts spanning blocks, decoy recorder", "holds sequentially; snapshot racing record inherits K-C05-K1"),
 'C20': ("Model/Recoverable (Arc strong-count machine)", "live while the handle is alive, `into_inner_exclusive`, no entry after the end, finalised at most once and never both recovered and finalised, inert after the end in every continuation",
         "scheduler over upgrade / inside / try_unwrap / handle-drop points, exhaustive schedules", "K-C20-late-delivery (emission after a handle drop while another is inside is still delivered; `late_delivery_after_handle_drop`)"),
}

out = []
out.append("## 8. As built — per property\n")
out.append("All checks are at level `proof`: a Lean theorem module about an executable model + the correspondence stream tying the model to `/repo` + implementation-side oracles. `thm` = property theorems audited by `#print axioms` on every run (all within {propext, Classical.choice, Quot.sound}; no `sorry`/`native_decide`/`bv_decide`/own axioms).\n")
out.append("| id | model | what the theorems establish (quantifier) | thm | tie to the code | result on the current tree |")
out.append("|---|---|---|---|---|---|")
for pid in sorted(P.keys() | NOTES.keys()):
    n = NOTES.get(pid, ("", "", "", ""))
    thm = len(P[pid]['theorems']) if pid in P else 0
    out.append(f"| {pid} | {n[0]} | {n[1]} | {thm} | {n[2]} | {n[3]} |")
out.append("")
out.append("### Genuine defects repaired (`fix:` commits in /repo; recorded as `fixed:` in known_findings.json, witnesses kept in the corpora)\n")
for f in K.get('fixed', []):
    out.append(f"* **{f['property']}** `{f['commit']}` — {f['what']}")
out.append("")
out.append("### Known findings (genuine, not repairable by a small safe patch; printed as `KNOWN-FINDING:` lines, exit 0)\n")
for f in K.get('findings', []):
    out.append(f"* **{f['id']}** ({f['property']}) — {f['summary']}")
out.append("")
out.append("A known finding is recognised by the oracle message of exactly that failure pattern (a trace/history signature), and only in cases where the model reproduces the implementation's behaviour; any other oracle failure of the same property is a `VIOLATION`.\n")

out.append("## 9. Seeded changes and which checks catch them\n")
out.append("Fresh sub-agents were given only the text of one property and a private worktree of `/repo` (nothing from /verif) and asked for two realistic, subtle changes each that break the property while the existing suite still passes, with a demonstration. Each change was then confirmed by `tools/confirm_seed.py` in the scratch worktree (existing tests pass with the patch; the demonstration fails with it and passes without it) and run against the property's check (`git -C /repo apply` → `./check` → `git checkout`). Kept under `seeded/<id>-<k>/`.\n")
out.append(subprocess.check_output(['python3', f'{R}/tools/seed_table.py']).decode())
out.append("")
out.append(open(f'{R}/tools/design_static_tail.md').read())
s = open(f'{R}/DESIGN.md').read()
i = s.find('## 8. As built')
if i < 0:
    j = s.find('## Appendix A')
    s = s[:j] + '\n'.join(out) + '\n' + s[j:]
else:
    j = s.find('## Appendix A')
    s = s[:i] + '\n'.join(out) + '\n' + s[j:]
open(f'{R}/DESIGN.md', 'w').write(s)
print("DESIGN.md §8–§11 regenerated")
