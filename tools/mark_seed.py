#!/usr/bin/env python3
"""tools/mark_seed.py <seed-id> <text>: records in seeded/<id>/meta.json what was strengthened after a miss"""
import json, sys
p = f"/verif/seeded/{sys.argv[1]}/meta.json"
m = json.load(open(p)); m["after_strengthening"] = sys.argv[2]
json.dump(m, open(p, "w"), indent=1, ensure_ascii=False)
