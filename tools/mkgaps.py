#!/usr/bin/env python3
"""tools/mkgaps.py <Cxx>: assembles /tmp/b/<Cxx>/GAPS.md (audit section + missed seeds) and copies the missed seeds"""
import glob, json, os, re, shutil, sys
P = sys.argv[1]
NO_AUDIT = "--no-audit" in sys.argv
D = f"/tmp/b/{P}"
out = [f"# Gaps to close for {P}\n"]
STATUS = json.load(open("/verif/seeded/STATUS.json")) if os.path.exists("/verif/seeded/STATUS.json") else {}
missed = []
for d in sorted(glob.glob(f"/verif/seeded/{P}-*/")):
    m = json.load(open(d + "meta.json"))
    c = m.get("confirmation", {})
    if m.get("after_strengthening"):
        continue
    sid = os.path.basename(d[:-1])
    st = STATUS.get(sid)
    if st:
        c = {"caught": st["caught"], "caught_with_failing_input": st["with_failing_input"]}
    if not c.get("caught"):
        missed.append((sid, "MISSED (quick and thorough silent)", m))
    elif (not st) and "check_thorough" in m.get("confirmation", {}) or (st and st.get("tier") == "thorough"):
        missed.append((sid, "caught only by the THOROUGH tier (quick tier silent) — make the quick tier catch it if that is cheap", m))
    elif not c.get("caught_with_failing_input"):
        missed.append((sid, "caught only WITHOUT a failing input (no-failing-input-found) — try to find the failing input too", m))
out.append("## Seeded defects the current check misses\n")
if not missed:
    out.append("(none on record)\n")
for sid, verdict, m in missed:
    os.makedirs(f"{D}/seeds/{sid}", exist_ok=True)
    for f in os.listdir(f"/verif/seeded/{sid}"):
        shutil.copy(f"/verif/seeded/{sid}/{f}", f"{D}/seeds/{sid}/")
    out.append(f"### {sid} — {verdict}\npatch: {D}/seeds/{sid}/patch.diff (demo and meta.json next to it)\n\n"
               f"**change:** {m.get('summary','')}\n\n**needs:** {m.get('needs','')}\n")
out.append("\n## Audit of blind spots\n")
found = False
for f in ([] if NO_AUDIT else sorted(glob.glob("/tmp/audit_*.md"))):
    s = open(f).read()
    parts = re.split(r"(?m)^## ", s)
    for part in parts:
        if part.startswith(P + " ") or part.startswith(P + "\n") or part.startswith(P + " —") or part.startswith(P + ":"):
            out.append("## " + part)
            found = True
if NO_AUDIT:
    out.append("(the earlier audits of this property have been worked through in previous rounds; after the missed seeds, do your own audit: split the property statement into clauses, check each has a theorem at full strength and an oracle whose generator reaches it, look for API paths of the anchored code that are outside the model, and extend model + theorems + correspondence there)\n")
elif not found:
    out.append("(no audit available for this property: do your own — split the property statement into clauses, check each has a theorem and an oracle whose generator reaches it, and look for unmodelled API paths)\n")
open(f"{D}/GAPS.md", "w").write("\n".join(out))
print(P, "missed seeds:", [x[0] for x in missed], "audit:", found)
