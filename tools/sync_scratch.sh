#!/bin/sh
# tools/sync_scratch.sh <dir>: push /verif's current sources into a scratch copy made by tools/mkscratch.sh
# (keeps the scratch copy's rewritten paths: check, setup.sh, harness/Cargo.toml, harness/.cargo/config.toml)
D="$1"; [ -d "$D/verif" ] || { echo "usage: $0 <scratch dir>"; exit 2; }
rsync -a --exclude .cache --exclude .git --exclude 'lean/.lake' --exclude 'harness/target' --exclude evidence \
  --exclude /setup.sh --exclude harness/Cargo.toml --exclude harness/Cargo.lock --exclude harness/.cargo /verif/ "$D/verif/"
sed "s#^REPO = \"/repo\"#REPO = \"$D/repo\"#" /verif/check > "$D/verif/check"
