#!/usr/bin/env python3
"""Regenerates MANIFEST.json from properties.jsonl + props.json (+ manifest_extra.json)."""
import json, os
R = os.path.dirname(os.path.dirname(os.path.abspath(__file__)))
props = [json.loads(l) for l in open(os.path.join(R, 'properties.jsonl'))]
specs = json.load(open(os.path.join(R, 'props.json')))
extra = json.load(open(os.path.join(R, 'manifest_extra.json')))
man = {
 "version": 1,
 "setup_cmd": "./setup.sh",
 "hooks": {"guard": "metrics_verif",
           "enable": "RUSTFLAGS=\"--cfg metrics_verif\" (set by ./check and ./setup.sh when building harness/ against /repo)",
           "baseline_off_cmd": "cd /repo && cargo test --workspace --no-fail-fast --offline",
           "source_commits": extra.get("hook_commits", []), "add_only": True},
 "engines": [
  {"name": "lean-proofs", "path": "lean/", "serves_properties": sorted(specs.keys()),
   "kind_free_text": "Lean 4 models (Model/), lemmas (Proofs/), property theorems (Props/), compiled model driver mvdriver"},
  {"name": "mv-harness", "path": "harness/", "serves_properties": sorted(specs.keys()),
   "kind_free_text": "Rust correspondence harness: drives the real crates in-process (hooks on), writes op stream + implementation answers + oracle failures; ./check diffs against mvdriver"}],
 "checks": [], "notes": "Every check: ./check <id> [--tier quick|thorough] [--replay file]. See DESIGN.md.",
 "not_applicable": []}
for p in props:
    i = p['id']
    if i in specs:
        s = specs[i]
        man["checks"].append({
          "property_id": i,
          "quick_cmd": f"./check {i} --tier quick",
          "thorough_cmd": f"./check {i} --tier thorough",
          "evidence_file": f"evidence/{i}.json",
          "replay_cmd_template": f"./check {i} --replay {{path}}",
          "engine": "lean-proofs + mv-harness",
          "level_claimed": {"category": "proof", "text": s.get("level_text", "Lean 4 theorems (unbounded, by induction) about an executable model of the anchored code; the model is tied to /repo's current source by a differential correspondence run, plus implementation-side oracles, on every check"),
                            "design_ref": f"DESIGN.md §4 {i}"},
          "level_note": s.get("level_note", "Trusted: Lean kernel; axioms propext/Classical.choice/Quot.sound only; the correspondence harness; parts listed as modelled-not-verified in DESIGN.md §2. " + " ".join(s.get("assumptions", []))),
          "technique": s.get("technique", "Lean 4 machine-checked proof + model-vs-code correspondence check")})
    else:
        man["not_applicable"].append({"property_id": i, "reason": extra.get("not_applicable", {}).get(i, "check under construction in this round (DESIGN.md §4 has its plan); not claimed until its theorem module and correspondence stream exist")})
json.dump(man, open(os.path.join(R, 'MANIFEST.json'), 'w'), indent=1, ensure_ascii=False)
print("claimed:", [c["property_id"] for c in man["checks"]])
