#!/usr/bin/env python3
"""tools/register.py --lean-import M [--state 'field : T := v'] --arm 'text' --rs-mod name --rs-arm 'text' [--props-from FILE --id Cxx]
Adds a component to lean/Main.lean and harness/src/main.rs (idempotent) and copies a props.json entry."""
import argparse, json, os
R = os.path.dirname(os.path.dirname(os.path.abspath(__file__)))
ap = argparse.ArgumentParser()
ap.add_argument('--lean-import'); ap.add_argument('--state'); ap.add_argument('--arm')
ap.add_argument('--rs-mod', action='append', default=[]); ap.add_argument('--rs-arm'); ap.add_argument('--rs-top')
ap.add_argument('--props-from'); ap.add_argument('--id')
a = ap.parse_args()
p = os.path.join(R, 'lean', 'Main.lean'); s = open(p).read()
if a.lean_import and f'import {a.lean_import}\n' not in s:
    s = s.replace('\nopen MetricsVerif.Driver\n', f'\nimport {a.lean_import}\n\nopen MetricsVerif.Driver\n', 1) if False else s
    # imports must stay at the top: insert after the last import line
    lines = s.split('\n'); last = max(i for i, l in enumerate(lines) if l.startswith('import '))
    lines.insert(last + 1, f'import {a.lean_import}'); s = '\n'.join(lines)
if a.state and a.state not in s:
    s = s.replace('structure DState where\n', 'structure DState where\n  ' + a.state + '\n', 1)
if a.arm and a.arm.strip().split('\n')[0] not in s:
    s = s.replace('  | _ => (st, "bad-op")\n\npartial', a.arm.rstrip('\n') + '\n  | _ => (st, "bad-op")\n\npartial', 1)
open(p, 'w').write(s)
p = os.path.join(R, 'harness', 'src', 'main.rs'); s = open(p).read()
for m in a.rs_mod:
    if f'mod {m};\n' not in s:
        s = s.replace('mod util;\n', f'mod {m};\nmod util;\n', 1)
if a.rs_top and a.rs_top not in s:
    s = s.replace('use std::path::PathBuf;\n', a.rs_top + '\nuse std::path::PathBuf;\n', 1)
if a.rs_arm and a.rs_arm.strip() not in s:
    s = s.replace('        other => {\n            eprintln!("unknown property', '        ' + a.rs_arm.strip() + '\n        other => {\n            eprintln!("unknown property', 1)
open(p, 'w').write(s)
if a.props_from and a.id:
    P = json.load(open(os.path.join(R, 'props.json'))); P[a.id] = json.load(open(a.props_from))[a.id]
    json.dump(P, open(os.path.join(R, 'props.json'), 'w'), indent=1, ensure_ascii=False)
print('registered')
