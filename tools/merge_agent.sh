#!/bin/sh
# tools/merge_agent.sh <scratch-dir> <base-commit>: merge a builder's scratch copy into /verif.
# New files are copied; files that existed at <base-commit> are merged as patches (diff base→scratch).
set -e
D="$1"; BASE="$2"
cd /verif
TMP=$(mktemp -d)
git archive "$BASE" | tar -x -C "$TMP"
# normalised copy of the scratch tree (undo the path rewriting of mkscratch.sh)
S=$(mktemp -d)
rsync -a --exclude .cache --exclude 'lean/.lake' --exclude 'harness/target' --exclude evidence "$D/verif/" "$S/"
grep -rlI "$D" "$S" | while read f; do sed -i "s#$D/repo#/repo#g; s#$D/verif#/verif#g" "$f"; done
(cd "$S" && find . -type f -not -path './.cache/*' -not -path './lean/.lake/*' -not -path './evidence/*' \
   -not -path './harness/target/*' -not -name Cargo.lock -not -name MANIFEST.json | sed 's#^\./##') | while read f; do
  if [ "$f" = known_findings.json ] || [ "$f" = tools/BUILDER_GUIDE.md ] || [ "$f" = tools/extract.py ]; then echo "skip  $f (merge by hand)"; elif [ ! -e "$TMP/$f" ]; then
    mkdir -p "$(dirname "$f")"; cp "$S/$f" "$f"; echo "new   $f"
  elif ! cmp -s "$TMP/$f" "$S/$f"; then
    case "$f" in
      props.json|known_findings.json) echo "skip  $f (merge by key)";;
      harness/Cargo.toml) diff -u "$TMP/$f" "$S/$f" | grep '^[+-]' | grep -v '^[+-][+-]' | grep -v 'path = "/' | sed 's/^/cargo: /';;
      *) if diff -u "$TMP/$f" "$S/$f" | patch -p0 --no-backup-if-mismatch "$f" >/dev/null; then echo "patch $f"; else echo "FAILED patch $f"; fi;;
    esac
  fi
done
rm -rf "$TMP" "$S"
