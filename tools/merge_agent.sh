#!/bin/sh
# tools/merge_agent.sh <scratch-dir> <base-commit>: merge a builder's scratch copy into /verif.
# New files are copied; files that existed at <base-commit> are merged as patches (diff base→scratch).
set -e
D="$1"; BASE="$2"; PID="${3:-}"
cd /verif
TMP=$(mktemp -d)
git archive "$BASE" | tar -x -C "$TMP"
# normalised copy of the scratch tree (undo the path rewriting of mkscratch.sh)
S=$(mktemp -d)
rsync -a --exclude .cache --exclude 'lean/.lake' --exclude 'harness/target' --exclude evidence --exclude 'seeded' "$D/verif/" "$S/"
grep -rlI "$D" "$S" | while read f; do sed -i "s#$D/repo#/repo#g; s#$D/verif#/verif#g" "$f"; done
(cd "$S" && find . -type f -not -path './.cache/*' -not -path './lean/.lake/*' -not -path './evidence/*' \
   -not -path './harness/target/*' -not -name Cargo.lock -not -name MANIFEST.json | sed 's#^\./##') | while read f; do
  if [ "$f" = known_findings.json ] || [ "$f" = tools/BUILDER_GUIDE.md ] || [ "$f" = lean/MetricsVerif/Generated/SourceFacts.lean ]; then echo "skip  $f (merge by hand / generated)"; elif [ ! -e "$TMP/$f" ]; then
    mkdir -p "$(dirname "$f")"; cp "$S/$f" "$f"; echo "new   $f"
  elif ! cmp -s "$TMP/$f" "$S/$f"; then
    case "$f" in
      props.json) if [ -n "$PID" ]; then python3 - "$S/props.json" "$PID" <<'PY'
import json, sys
src = json.load(open(sys.argv[1])); dst = json.load(open('/verif/props.json'))
dst[sys.argv[2]] = src[sys.argv[2]]
json.dump(dst, open('/verif/props.json', 'w'), indent=1, ensure_ascii=False)
print('props ' + sys.argv[2] + ' entry taken from the scratch copy')
PY
        else echo "skip  $f (merge by key: pass the property id as 3rd argument)"; fi;;
      harness/Cargo.toml) diff -u "$TMP/$f" "$S/$f" | grep '^[+-]' | grep -v '^[+-][+-]' | grep -v 'path = "/' | sed 's/^/cargo: /';;
      *) if diff -u "$TMP/$f" "$S/$f" | patch -p0 --no-backup-if-mismatch -F3 "$f" >/dev/null; then echo "patch $f"; else echo "FAILED patch $f  (scratch version kept at /tmp/merge-failed/$f)"; mkdir -p "/tmp/merge-failed/$(dirname "$f")"; cp "$S/$f" "/tmp/merge-failed/$f"; diff -u "$TMP/$f" "$S/$f" > "/tmp/merge-failed/$f.diff" || true; fi;;
    esac
  fi
done
rm -rf "$TMP" "$S"
