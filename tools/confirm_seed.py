#!/usr/bin/env python3
"""
tools/confirm_seed.py <property> <k>
Confirms the seeded change $SEED_BASE/<property>/m<k> (default base /tmp/s) in ITS scratch worktree ($SEED_BASE/<property>/repo), runs the
property's check against it in /repo (apply → ./check → undo), and files it under /verif/seeded/<property>-<k>/.

 1. scratch worktree clean; patch applies; touched crates + dependants still pass `cargo test` (existing suite);
 2. the demonstration FAILS with the patch and PASSES without it (the meta.json `demo_cmd`);
 3. `git -C /repo apply` → `./check <property>` (quick; thorough too if quick is silent) → `git -C /repo checkout -- .`;
 4. /verif/seeded/<property>-<k>/{patch.diff, demo files, meta.json (+ what we ran and saw)}.
"""
import json, os, shutil, subprocess, sys

P, K = sys.argv[1], sys.argv[2]
S = os.path.join(os.environ.get("SEED_BASE", "/tmp/s"), P)
M = f"{S}/m{K}"
W = f"{S}/repo"
ENV = dict(os.environ, CARGO_NET_OFFLINE="true")


def sh(cmd, cwd=None, timeout=3000):
    p = subprocess.run(cmd, shell=True, cwd=cwd, env=ENV, stdout=subprocess.PIPE, stderr=subprocess.STDOUT, timeout=timeout)
    return p.returncode, p.stdout.decode("utf-8", "replace")


def clean():
    sh("git checkout -- . && git clean -fdq", cwd=W)


meta = json.load(open(f"{M}/meta.json"))
import re
# normalise the demonstration command: prose in parentheses, and commands that (re-)apply the patch themselves
meta["demo_cmd"] = re.sub(r"\s*\([^()]*tests/ dir[^()]*\)", "", meta["demo_cmd"])
meta["demo_cmd"] = re.sub(r"git -C \S+ apply \S+\s*&&\s*", "", meta["demo_cmd"])
res = {"confirmed_by": "tools/confirm_seed.py", "steps": {}}
clean()
rc, out = sh(f"git apply --check {M}/patch.diff && git apply {M}/patch.diff", cwd=W)
res["steps"]["patch_applies"] = rc == 0
if rc != 0:
    print("patch does not apply", out[-300:]); sys.exit(1)
# crates touched
rc, out = sh("git diff --name-only", cwd=W)
crates = sorted({l.split("/")[0] for l in out.split() if "/" in l})
deps = {"metrics": ["metrics", "metrics-util", "metrics-exporter-prometheus", "metrics-exporter-dogstatsd", "metrics-exporter-tcp", "metrics-tracing-context"],
        "metrics-util": ["metrics-util", "metrics-exporter-prometheus", "metrics-exporter-dogstatsd"]}
pk = sorted({d for c in crates for d in deps.get(c, [c])})
rc, out = sh("cargo test --offline " + " ".join(f"-p {c}" for c in pk) + " 2>&1 | grep -E '^test result|FAILED|panicked|^error' | tail -30", cwd=W)
failed = [l for l in out.splitlines() if "FAILED" in l or l.startswith("error") or ("test result" in l and " 0 failed" not in l)]
res["steps"]["existing_tests_with_patch"] = {"packages": pk, "ok": not failed, "tail": out[-600:]}
for c in ("metrics", "metrics-util", "metrics-exporter-prometheus", "metrics-exporter-dogstatsd", "metrics-exporter-tcp", "metrics-tracing-context"):
    os.makedirs(f"{W}/{c}/tests", exist_ok=True)
rc1, out1 = sh(meta["demo_cmd"], timeout=3000)
res["steps"]["demo_with_patch"] = {"rc": rc1, "failed": rc1 != 0, "tail": out1[-500:]}
# keep untracked demo files, revert tracked changes
sh("git checkout -- .", cwd=W)
rc2, out2 = sh(meta["demo_cmd"], timeout=3000)
res["steps"]["demo_without_patch"] = {"rc": rc2, "passed": rc2 == 0, "tail": out2[-300:]}
clean()
# our check against it
rc, out = sh(f"/verif/tools/try_seed.sh {P} {M}/patch.diff quick", cwd="/verif", timeout=6000)
res["check_quick"] = out[-1500:]
caught = "VIOLATION" in out
if not caught:
    rc, out = sh(f"/verif/tools/try_seed.sh {P} {M}/patch.diff thorough", cwd="/verif", timeout=20000)
    res["check_thorough"] = out[-1500:]
    caught = "VIOLATION" in out
res["caught"] = caught
res["caught_with_failing_input"] = caught and "no-failing-input-found" not in out
D = f"/verif/seeded/{P}-{K}"
os.makedirs(D, exist_ok=True)
for f in os.listdir(M):
    if f == "meta.json":
        continue
    if os.path.isdir(f"{M}/{f}"):
        shutil.copytree(f"{M}/{f}", f"{D}/{f}", dirs_exist_ok=True)
    else:
        shutil.copy(f"{M}/{f}", D)
meta["confirmation"] = res
meta["what_it_needs_to_manifest"] = meta.get("needs", "")
json.dump(meta, open(f"{D}/meta.json", "w"), indent=1, ensure_ascii=False)
ok = res["steps"]["existing_tests_with_patch"]["ok"] and res["steps"]["demo_with_patch"]["failed"] and res["steps"]["demo_without_patch"]["passed"]
print(f"{P}-{K}: valid_seed={ok} caught={caught} with_input={res['caught_with_failing_input']}")
