#!/usr/bin/env python3
"""prints the markdown table of seeded changes (DESIGN.md §9) from seeded/*/meta.json"""
import json, glob, os
rows = []
for d in sorted(glob.glob('/verif/seeded/*/')):
    m = json.load(open(d + 'meta.json'))
    c = m.get('confirmation', {})
    st = c.get('steps', {})
    valid = st.get('existing_tests_with_patch', {}).get('ok') and st.get('demo_with_patch', {}).get('failed') and st.get('demo_without_patch', {}).get('passed')
    caught = c.get('caught'); inp = c.get('caught_with_failing_input')
    how = m.get('caught_by', '')
    summ = (m.get('summary', '')[:230] + '…') if len(m.get('summary', '')) > 230 else m.get('summary', '')
    needs = (m.get('needs', '')[:160] + '…') if len(m.get('needs', '')) > 160 else m.get('needs', '')
    verdict = ('caught, failing input' if inp else 'caught (no-failing-input-found)') if caught else 'MISSED'
    if m.get('after_strengthening'):
        verdict += ' — ' + m['after_strengthening']
    rows.append(f"| {os.path.basename(d[:-1])} | {summ.replace('|','/')} | {needs.replace('|','/')} | {'yes' if valid else 'NO'} | {verdict} {how} |")
print("| seed | change | needs | confirmed (tests pass, demo fails/passes) | our check |")
print("|---|---|---|---|---|")
print("\n".join(rows))
